/-
Helper lemmas about the two path walkers of Model/Paths.lean:
`rpWalk` (posixpath.realpath, lexical `..`, ignores missing components) and `kWalk` (the kernel's walk).
-/
import Octave.Model.Paths
namespace Octave
open List

/-! ### well-formed file systems -/

/-- children exist only below directories, and no name is longer than NAME_MAX -/
structure Fs.WF (fs : Fs) : Prop where
  parentDir : ∀ p n, fs.node (p ++ [n]) ≠ none → fs.get p = some .dir
  nameShort : ∀ p n, fs.node (p ++ [n]) ≠ none → utf8Len n ≤ nameMax

def normalName (c : Str) : Prop := c ≠ [] ∧ c ≠ dot ∧ c ≠ dotdot

theorem Fs.get_snoc (fs : Fs) (p : List Str) (n : Str) : fs.get (p ++ [n]) = fs.node (p ++ [n]) := by
  simp [Fs.get]

/-! ### lstatAt inversion -/

theorem lstatAt_node {fs : Fs} {dir : List Str} {name : Str} {n : Node} (h : lstatAt fs dir name = .node n) :
    fs.get dir = some .dir ∧ ¬ utf8Len name > nameMax ∧ fs.get (dir ++ [name]) = some n := by
  unfold lstatAt at h
  split at h
  · split at h
    · simp at h
    · split at h
      · simp at h; subst h
        exact ⟨by assumption, by assumption, by assumption⟩
      · simp at h
  · simp at h

theorem lstatAt_of {fs : Fs} {dir : List Str} {name : Str} {n : Node} (hd : fs.get dir = some .dir)
    (hl : ¬ utf8Len name > nameMax) (hn : fs.get (dir ++ [name]) = some n) : lstatAt fs dir name = .node n := by
  unfold lstatAt
  simp [hd, hl, hn]

def isLinkSt : St → Bool
  | .node (.link _) => true
  | _ => false

/-! ### physical, link-free paths -/

/-- every non-empty prefix of `p`, looked up physically, is not a symlink -/
def physLinkFree (fs : Fs) (p : List Str) : Prop :=
  ∀ pre name, (pre ++ [name]) <+: p → isLinkSt (lstatAt fs pre name) = false

theorem physLinkFree_nil (fs : Fs) : physLinkFree fs [] := by
  intro pre name h
  have := List.eq_nil_of_prefix_nil h
  simp at this

theorem physLinkFree_prefix {fs : Fs} {p q : List Str} (h : physLinkFree fs p) (hq : q <+: p) : physLinkFree fs q :=
  fun pre name hpre => h pre name (List.IsPrefix.trans hpre hq)

theorem physLinkFree_dropLast {fs : Fs} {p : List Str} (h : physLinkFree fs p) : physLinkFree fs p.dropLast :=
  physLinkFree_prefix h (List.dropLast_prefix p)

theorem physLinkFree_snoc {fs : Fs} {p : List Str} {name : Str} (h : physLinkFree fs p)
    (hn : isLinkSt (lstatAt fs p name) = false) : physLinkFree fs (p ++ [name]) := by
  intro pre nm hpre
  rcases List.prefix_concat_iff.mp (by simpa using hpre) with h1 | h1
  · have : pre = p ∧ nm = name := by
      have := List.append_inj' h1 rfl
      simpa using this
    rw [this.1, this.2]; exact hn
  · exact h pre nm h1

/-- `realpath` only ever appends components that `lstat` did not report as links: a completed resolution
has no symlink in any prefix. -/
theorem rpWalk_done_physLinkFree (fs : Fs) : ∀ (f : Nat) (path rest : List Str) (vis : List (List Str)) (p : List Str),
    physLinkFree fs path → rpWalk fs f path rest vis = .done p → physLinkFree fs p := by
  intro f
  induction f with
  | zero => intro path rest vis p _ h; simp [rpWalk] at h
  | succ f ih =>
    intro path rest vis p hp h
    cases rest with
    | nil => simp [rpWalk] at h; subst h; exact hp
    | cons name rest =>
      simp only [rpWalk] at h
      split at h
      · exact ih _ _ _ _ hp h
      · split at h
        · exact ih _ _ _ _ (physLinkFree_dropLast hp) h
        · split at h
          · simp at h
          · split at h
            · rename_i t heq
              split at h
              · simp at h
              · split at h
                · rename_i p' hin
                  have hp' : physLinkFree fs p' := by
                    refine ih _ _ _ _ ?_ hin
                    split
                    · exact physLinkFree_nil fs
                    · exact hp
                  exact ih _ _ _ _ hp' h
                · simp at h
                · simp at h
                · simp at h
            · rename_i hne
              refine ih _ _ _ _ (physLinkFree_snoc hp ?_) h
              cases hst : lstatAt fs path name with
              | missing => rfl
              | toolong => rfl
              | node n =>
                cases n with
                | link t => exact absurd hst (hne t)
                | file c => rfl
                | dir => rfl

/-! ### the kernel walk distributes over concatenation (fuel is a depth bound: one unit per component) -/

theorem kWalk_append (fs : Fs) : ∀ (xs : List Str) (f : Nat) (cur ys : List Str) (vis : List (List Str)),
    kWalk fs (f + xs.length) cur (xs ++ ys) vis =
      match kWalk fs (f + xs.length) cur xs vis with
      | .ok c => kWalk fs f c ys vis
      | e => e := by
  intro xs
  induction xs with
  | nil =>
    intro f cur ys vis
    cases f with
    | zero => simp [kWalk]
    | succ f => simp [kWalk]
  | cons x xs ih =>
    intro f cur ys vis
    have hlen : f + (x :: xs).length = (f + xs.length) + 1 := by simp; omega
    rw [hlen]
    simp only [List.cons_append, kWalk]
    split
    · split
      · exact ih f cur ys vis
      · split
        · exact ih f _ ys vis
        · split
          · rfl
          · split
            · rfl
            · split
              · rfl
              · cases hin : kWalk fs (f + xs.length) (if isAbsText _ = true then [] else cur) (splitSlash _) ((cur ++ [x]) :: vis) with
                | ok c' => simp only []; exact ih f c' ys vis
                | enoent => rfl
                | eloop => rfl
                | toolong => rfl
                | fuel => rfl
            · exact ih f _ ys vis
    · rfl

/-! ### when the kernel resolves a path, realpath (same arguments) computes the same result -/

theorem kWalk_ok_rpWalk (fs : Fs) : ∀ (f : Nat) (path rest : List Str) (vis : List (List Str)) (c : List Str),
    kWalk fs f path rest vis = .ok c → rpWalk fs f path rest vis = .done c ∨ rpWalk fs f path rest vis = .nul := by
  intro f
  induction f with
  | zero => intro path rest vis c h; simp [kWalk] at h
  | succ f ih =>
    intro path rest vis c h
    cases rest with
    | nil => simp [kWalk] at h; subst h; simp [rpWalk]
    | cons name rest =>
      simp only [kWalk] at h
      split at h
      · rename_i hdir
        split at h
        · rename_i hskip
          simp only [rpWalk, hskip, if_true]
          exact ih _ _ _ _ h
        · rename_i hskip
          split at h
          · rename_i hdd
            simp [rpWalk, hdd]
            exact ih _ _ _ _ h
          · rename_i hdd
            split at h
            · simp at h
            · rename_i hlen
              simp only [rpWalk, hskip, if_false, hdd]
              by_cases hnul : hasNul name = true
              · right; simp [hnul]
              · simp only [hnul]
                split at h
                · simp at h
                · rename_i t hlink
                  have hst : lstatAt fs path name = .node (.link t) := lstatAt_of hdir hlen hlink
                  simp only [hst]
                  split at h
                  · simp at h
                  · rename_i hvis
                    simp only [hvis]
                    split at h
                    · rename_i c' hin
                      rcases ih _ _ _ _ hin with h1 | h1
                      · simp only [h1]; exact ih _ _ _ _ h
                      · right; simp [h1]
                    · rename_i hne
                      exact absurd h (by intro h'; exact hne c (by rw [h']) )
                · rename_i n hnl hn
                  have hst : lstatAt fs path name = .node n := lstatAt_of hdir hlen hn
                  have : ∀ t, n ≠ .link t := fun t ht => hnl t ht
                  cases n with
                  | link t => exact absurd rfl (this t)
                  | file cnt => simp only [hst]; exact ih _ _ _ _ h
                  | dir => simp only [hst]; exact ih _ _ _ _ h
      · simp at h

/-! ### below something that is not a directory nothing is a link: realpath cannot run into a cycle there -/

theorem lstatAt_missing_of_not_dir {fs : Fs} {path : List Str} (name : Str) (h : fs.get path ≠ some .dir) :
    lstatAt fs path name = .missing := by
  unfold lstatAt
  split
  · rename_i hd; exact absurd hd h
  · rfl

theorem dead_snoc {fs : Fs} (wf : fs.WF) {path : List Str} (name : Str) (h : fs.get path ≠ some .dir) :
    fs.get (path ++ [name]) ≠ some .dir := by
  rw [Fs.get_snoc]
  intro hc
  exact h (wf.parentDir path name (by rw [hc]; simp))

theorem rpWalk_dead_no_loop (fs : Fs) (wf : fs.WF) : ∀ (rest : List Str) (f : Nat) (path : List Str) (vis : List (List Str)),
    (∀ c ∈ rest, normalName c) → fs.get path ≠ some .dir → ∀ np r, rpWalk fs f path rest vis ≠ .loop np r := by
  intro rest
  induction rest with
  | nil =>
    intro f path vis _ _ np r
    cases f <;> simp [rpWalk]
  | cons name rest ih =>
    intro f path vis hn hdead np r
    cases f with
    | zero => simp [rpWalk]
    | succ f =>
      have hname : normalName name := hn name (by simp)
      have hrest : ∀ c ∈ rest, normalName c := fun c hc => hn c (by simp [hc])
      obtain ⟨h1, h2, h3⟩ := hname
      simp only [rpWalk, h1, h2, h3, false_or, if_false]
      by_cases hnul : hasNul name = true
      · simp [hnul]
      · simp only [hnul, lstatAt_missing_of_not_dir name hdead]
        exact ih f _ vis hrest (dead_snoc wf name hdead) np r

/-! ### on a physical link-free path the kernel walk is the identity -/

theorem kWalk_phys (fs : Fs) : ∀ (rest : List Str) (f : Nat) (cur : List Str) (vis : List (List Str)) (c : List Str),
    (∀ x ∈ rest, normalName x) → physLinkFree fs (cur ++ rest) → kWalk fs f cur rest vis = .ok c → c = cur ++ rest := by
  intro rest
  induction rest with
  | nil =>
    intro f cur vis c _ _ h
    cases f with
    | zero => simp [kWalk] at h
    | succ f => simp [kWalk] at h; simp [h]
  | cons part rest ih =>
    intro f cur vis c hn hp h
    cases f with
    | zero => simp [kWalk] at h
    | succ f =>
      have hname : normalName part := hn part (by simp)
      have hrest : ∀ x ∈ rest, normalName x := fun x hx => hn x (by simp [hx])
      obtain ⟨h1, h2, h3⟩ := hname
      simp only [kWalk, h1, h2, h3, false_or, if_false] at h
      split at h
      · rename_i hdir
        split at h
        · simp at h
        · rename_i hlen
          split at h
          · simp at h
          · rename_i t hlink
            have hst := lstatAt_of hdir hlen hlink
            have := hp cur part (by simp)
            rw [hst] at this
            simp [isLinkSt] at this
          · have := ih f (cur ++ [part]) vis c hrest (by simpa using hp) h
            simpa using this
      · simp at h

theorem kstat_phys {fs : Fs} {fuel : Nat} {p c : List Str} (hn : ∀ x ∈ p, normalName x) (hp : physLinkFree fs p)
    (h : kstat fs fuel p = .ok c) : c = p := by
  have := kWalk_phys fs p fuel [] [] c hn (by simpa using hp) h
  simpa using this

/-- On a path without special components whose physical prefixes are not links, `is_symlink()` is not true for
any prefix. -/
theorem pyIsSymlink_ne_true_of_phys {fs : Fs} {fuel : Nat} {p : List Str} (hn : ∀ x ∈ p, normalName x) (hp : physLinkFree fs p) :
    ∀ pre name, (pre ++ [name]) <+: p → pyIsSymlink fs fuel (pre ++ [name]) ≠ .ok true := by
  intro pre name hpre
  have hpre' : pre <+: p := List.IsPrefix.trans (List.prefix_append pre [name]) hpre
  unfold pyIsSymlink
  simp only [List.getLast?_append, List.getLast?_singleton, Option.some_or]
  split
  · simp
  · split
    · split <;> simp
    · rw [List.dropLast_concat]
      split
      · rename_i d hk
        have hd : d = pre := kstat_phys (fun x hx => hn x (hpre'.subset hx)) (physLinkFree_prefix hp hpre') hk
        subst hd
        split
        · rename_i hdir
          split
          · simp
          · rename_i hlen
            split
            · rename_i t hlink
              have hst := lstatAt_of hdir hlen hlink
              have := hp d name hpre
              rw [hst] at this
              simp [isLinkSt] at this
            · simp
        · simp
      · simp
      · simp
      · simp

/-! ### no dangling symlink component ⇒ realpath never reports a cycle -/

/-- every symlink among the prefixes of the path resolves (`exists()` is true for it) -/
def noDangling (fs : Fs) (fuel : Nat) (parts : List Str) : Prop :=
  ∀ pre name, (pre ++ [name]) <+: parts → pyIsSymlink fs fuel (pre ++ [name]) = .ok true → pyExists fs fuel (pre ++ [name]) = .ok true

theorem pyExists_true {fs : Fs} {fuel : Nat} {parts : List Str} (h : pyExists fs fuel parts = .ok true) :
    ∃ c, kstat fs fuel parts = .ok c := by
  unfold pyExists at h
  split at h
  · simp at h
  · split at h
    · rename_i c hk; exact ⟨c, hk⟩
    all_goals simp at h

theorem pyIsSymlink_of {fs : Fs} {fuel : Nat} {pre path : List Str} {name t : Str}
    (hnul : (pre ++ [name]).any hasNul = false) (hname : normalName name)
    (hk : kstat fs fuel pre = .ok path) (hdir : fs.get path = some .dir) (hlen : ¬ utf8Len name > nameMax)
    (hlink : fs.get (path ++ [name]) = some (.link t)) : pyIsSymlink fs fuel (pre ++ [name]) = .ok true := by
  obtain ⟨h1, h2, h3⟩ := hname
  unfold pyIsSymlink
  simp only [List.getLast?_append, List.getLast?_singleton, Option.some_or, hnul, Bool.false_eq_true, if_false,
    h1, h2, h3, or_self, List.dropLast_concat, hk, hdir, hlen, hlink]

theorem lstatAt_toolong {fs : Fs} {dir : List Str} {name : Str} (h : lstatAt fs dir name = .toolong) : utf8Len name > nameMax := by
  unfold lstatAt at h
  split at h
  · split at h
    · assumption
    · split at h <;> simp at h
  · simp at h

theorem lstatAt_missing_dead {fs : Fs} (wf : fs.WF) {dir : List Str} {name : Str} (h : lstatAt fs dir name = .missing) :
    fs.get (dir ++ [name]) ≠ some .dir := by
  by_cases hd : fs.get dir = some .dir
  · unfold lstatAt at h
    simp only [hd] at h
    split at h
    · simp at h
    · split at h
      · simp at h
      · rename_i hnone; rw [hnone]; simp
  · exact dead_snoc wf name hd

theorem rpWalk_top_no_loop (fs : Fs) (wf : fs.WF) : ∀ (rest : List Str) (f : Nat) (pre path : List Str),
    (∀ c ∈ rest, normalName c) →
    kWalk fs (f + pre.length) [] pre [] = .ok path →
    pre.any hasNul = false →
    noDangling fs (f + pre.length) (pre ++ rest) →
    ∀ np r, rpWalk fs f path rest [] ≠ .loop np r := by
  intro rest
  induction rest with
  | nil =>
    intro f pre path _ _ _ _ np r
    cases f <;> simp [rpWalk]
  | cons name rest ih =>
    intro f pre path hn hk hprenul hnd np r
    cases f with
    | zero => simp [rpWalk]
    | succ f =>
      have hname : normalName name := hn name (by simp)
      have hrest : ∀ c ∈ rest, normalName c := fun c hc => hn c (by simp [hc])
      have hF : f + (pre ++ [name]).length = f + 1 + pre.length := by simp; omega
      have hparts : (pre ++ [name]) ++ rest = pre ++ name :: rest := by simp
      obtain ⟨h1, h2, h3⟩ := hname
      simp only [rpWalk, h1, h2, h3, false_or, if_false]
      by_cases hnul : hasNul name = true
      · simp [hnul]
      · simp only [hnul]
        have hprenul' : (pre ++ [name]).any hasNul = false := by
          simp only [List.any_append, hprenul, List.any_cons, List.any_nil, Bool.or_false, Bool.false_or]
          simpa using hnul
        -- the kernel walk of `pre ++ [name]` reduces to one step from `path`
        have hstep : kWalk fs (f + 1 + pre.length) [] (pre ++ [name]) [] = kWalk fs (f + 1) path [name] [] := by
          rw [kWalk_append fs pre (f + 1) [] [name] [], hk]
        cases hst : lstatAt fs path name with
        | missing =>
          simp only []
          exact rpWalk_dead_no_loop fs wf rest f _ [] hrest (lstatAt_missing_dead wf hst) np r
        | toolong =>
          simp only []
          have hlong := lstatAt_toolong hst
          refine rpWalk_dead_no_loop fs wf rest f _ [] hrest ?_ np r
          rw [Fs.get_snoc]
          intro hc
          have := wf.nameShort path name (by rw [hc]; simp)
          omega
        | node n =>
          obtain ⟨hdir, hlen, hchild⟩ := lstatAt_node hst
          cases n with
          | file cnt =>
            simp only []
            refine rpWalk_dead_no_loop fs wf rest f _ [] hrest ?_ np r
            rw [hchild]; simp
          | dir =>
            simp only []
            cases f with
            | zero => simp [rpWalk]
            | succ f' =>
              refine ih (f' + 1) (pre ++ [name]) (path ++ [name]) hrest ?_ hprenul' ?_ np r
              · rw [hF, hstep]
                simp [kWalk, hdir, h1, h2, h3, hlen, hchild]
              · rw [hF, hparts]; exact hnd
          | link t =>
            simp only [List.contains_nil, Bool.false_eq_true, if_false]
            have hsym : pyIsSymlink fs (f + 1 + pre.length) (pre ++ [name]) = .ok true :=
              pyIsSymlink_of hprenul' ⟨h1, h2, h3⟩ hk hdir hlen hchild
            obtain ⟨c, hc⟩ := pyExists_true (hnd pre name (by simp) hsym)
            unfold kstat at hc
            rw [hstep] at hc
            simp only [kWalk, hdir, h1, h2, h3, false_or, if_false, hlen, hchild, List.contains_nil, Bool.false_eq_true] at hc
            split at hc
            · rename_i c' hin
              rcases kWalk_ok_rpWalk fs f _ _ _ c' hin with hrp | hrp
              · simp only [hrp]
                refine ih f (pre ++ [name]) c' hrest ?_ hprenul' ?_ np r
                · rw [hF, hstep]
                  simp only [kWalk, hdir, h1, h2, h3, false_or, if_false, hlen, hchild, List.contains_nil, Bool.false_eq_true, hin]
                  cases f with
                  | zero => simp [kWalk] at hc
                  | succ f' => simp [kWalk]
                · rw [hF, hparts]; exact hnd
              · simp [hrp]
            · rename_i hne
              exact absurd hc (by intro h'; exact hne c (by rw [h']))

end Octave
