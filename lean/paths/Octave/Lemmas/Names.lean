/-
Lemmas about file names built from validated schema names and digests: they are single path components.
-/
import Octave.Model.Paths
namespace Octave
open List

theorem splitOnChar_no_sep (c : Char) : ∀ (s : Str), c ∉ s → splitOnChar c s = [s] := by
  intro s
  induction s with
  | nil => intro _; simp [splitOnChar]
  | cons a s ih =>
    intro h
    have ha : a ≠ c := fun hc => h (by simp [hc])
    have hs : c ∉ s := fun hc => h (by simp [hc])
    simp [splitOnChar, ih hs, ha]

theorem leadingSlashes_zero {s : Str} (h : '/' ∉ s) : leadingSlashes s = 0 := by
  cases s with
  | nil => rfl
  | cons a s =>
    have : a ≠ '/' := fun hc => h (by simp [hc])
    unfold leadingSlashes
    split
    · rename_i heq; simp at heq; exact absurd heq.1 this
    · rfl

/-- a slash-free name other than "" and "." is one relative path component -/
theorem parsePath_single {s : Str} (h : '/' ∉ s) (h1 : s ≠ []) (h2 : s ≠ dot) : parsePath s = { root := 0, tail := [s] } := by
  unfold parsePath
  simp only [leadingSlashes_zero h, if_true]
  unfold splitSlash
  rw [splitOnChar_no_sep '/' s h]
  simp [h1, h2]

theorem joinPath_single (dir : List Str) {s : Str} (h : '/' ∉ s) (h1 : s ≠ []) (h2 : s ≠ dot) : joinPath dir s = dir ++ [s] := by
  unfold joinPath
  rw [parsePath_single h h1 h2]
  simp

theorem toLower_ne_slash (c : Char) (h : c ≠ '/') : c.toLower ≠ '/' := by
  unfold Char.toLower
  split
  · rename_i h1
    intro h2
    have h3 := congrArg Char.val h2
    simp only [] at h3
    have e1 : 'A'.val = 65 := by decide
    have e2 : 'Z'.val = 90 := by decide
    have e3 : 'a'.val = 97 := by decide
    have e4 : '/'.val = 47 := by decide
    rw [e1, e2] at h1
    rw [e3, e1, e4] at h3
    have a1 := h1.1
    have a2 := h1.2
    have : c.val.toNat ≥ 65 := by simpa using UInt32.le_iff_toNat_le.mp a1
    have : c.val.toNat ≤ 90 := by simpa using UInt32.le_iff_toNat_le.mp a2
    have := congrArg UInt32.toNat h3
    simp [UInt32.toNat_add] at this
    have hc : c.toNat = c.val.toNat := rfl
    omega
  · exact h

theorem isUpperAZ_ne_slash {c : Char} (h : isUpperAZ c = true) : c ≠ '/' := by
  intro hc; subst hc; revert h; decide

theorem schemaBodyChar_ne_slash {c : Char} (h : schemaBodyChar c = true) : c ≠ '/' := by
  intro hc; subst hc; revert h; decide

theorem isHexChar_ne_slash {c : Char} (h : isHexChar c = true) : c ≠ '/' := by
  intro hc; subst hc; revert h; decide

theorem eq_dropLast_append_of_getLast? {α : Type} : ∀ (l : List α) (a : α), l.getLast? = some a → l = l.dropLast ++ [a] := by
  intro l
  induction l with
  | nil => intro a h; simp at h
  | cons x l ih =>
    intro a h
    cases l with
    | nil => simp at h; simp [h]
    | cons y l =>
      have : (y :: l).getLast? = some a := by simpa [List.getLast?_cons_cons] using h
      have := ih a this
      simp only [List.dropLast_cons_cons, List.cons_append]
      rw [← this]

/-- a name accepted by SCHEMA_NAME_PATTERN contains no path separator -/
theorem schemaNameOk_no_slash {n : Str} (h : schemaNameOk n = true) : '/' ∉ n := by
  unfold schemaNameOk at h
  split at h
  · simp at h
  · rename_i c cs
    simp only [Bool.and_eq_true] at h
    obtain ⟨hc, hcs⟩ := h
    intro hmem
    rcases List.mem_cons.mp hmem with hx | hx
    · exact isUpperAZ_ne_slash hc hx.symm
    · split at hcs
      · rename_i hlast
        have hsplit : cs = cs.dropLast ++ ['\n'] := eq_dropLast_append_of_getLast? cs '\n' hlast
        rw [hsplit] at hx
        rcases List.mem_append.mp hx with hy | hy
        · exact schemaBodyChar_ne_slash (List.all_eq_true.mp hcs _ hy) rfl
        · simp at hy
      · exact schemaBodyChar_ne_slash (List.all_eq_true.mp hcs _ hx) rfl

theorem octMd_facts : '/' ∉ octMd ∧ octMd.length = 7 := by decide

theorem name_octMd_single (dir : List Str) (x : Str) (h : '/' ∉ x) :
    joinPath dir (x ++ octMd) = dir ++ [x ++ octMd] ∧ '/' ∉ (x ++ octMd) ∧ x ++ octMd ≠ dotdot ∧ x ++ octMd ≠ dot := by
  have hns : '/' ∉ x ++ octMd := by
    intro hm
    rcases List.mem_append.mp hm with h1 | h1
    · exact h h1
    · exact octMd_facts.1 h1
  have hlen : (x ++ octMd).length ≥ 7 := by simp [octMd_facts.2]
  have h1 : x ++ octMd ≠ [] := by intro hc; rw [hc] at hlen; simp at hlen
  have h2 : x ++ octMd ≠ dot := by intro hc; rw [hc] at hlen; simp [dot] at hlen
  have h3 : x ++ octMd ≠ dotdot := by intro hc; rw [hc] at hlen; simp [dotdot] at hlen
  exact ⟨joinPath_single dir hns h1 h2, hns, h3, h2⟩

end Octave
