/-
Executable model of the path-confinement code of octave-mcp (transcription of the code that exists):

  * `pathlib.PurePosixPath` parsing (`parts`, `name`, `suffix`, `suffixes`), `Path.absolute()`,
    `Path.resolve(strict=False)` = `posixpath.realpath` + the ELOOP probe, `Path.exists()`,
    `Path.is_symlink()` over an abstract file system with directories, files and symlinks
    (dangling links and loops included);
  * `WriteTool._validate_path`, `ValidateTool._validate_path`, `file_ops.validate_octave_path`
    (three copies of the component walk, `exists() and is_symlink()`, `/private` exemption);
  * `loader.SCHEMA_NAME_PATTERN` / `load_schema_by_name`;
  * `hydrator.resolve_hermetic_standard`, `hydrator.validate_source_uri`.

Core Lean only.  Strings are `List Char`.  Recursion is structural on a fuel argument; running out of
fuel is an explicit outcome (`PErr.fuel`), never a guessed verdict.
-/
namespace Octave

abbrev Str := List Char

deriving instance DecidableEq for Except

/-! ## Abstract file system -/

inductive Node where
  | file (content : Str)
  | dir
  | link (target : Str)
  deriving Repr, DecidableEq, Inhabited

/-- A file system maps a *physical* absolute path (list of components below `/`, none of whose proper
prefixes is a symlink) to the object found there by `lstat`.  `[]` is the root directory. -/
structure Fs where
  node : List Str → Option Node

def Fs.get (fs : Fs) (p : List Str) : Option Node :=
  if p = [] then some .dir else fs.node p

def Fs.ofList (l : List (List Str × Node)) : Fs :=
  ⟨fun p => (l.find? (fun e => e.1 == p)).map (·.2)⟩

/-! ## String helpers -/

/-- `s.split('/')` -/
def splitOnChar (sep : Char) : Str → List Str
  | [] => [[]]
  | c :: cs =>
    match splitOnChar sep cs with
    | [] => [[]]
    | h :: t => if c = sep then [] :: h :: t else (c :: h) :: t

def splitSlash : Str → List Str := splitOnChar '/'

def dot : Str := ['.']
def dotdot : Str := ['.', '.']

/-- number of UTF-8 bytes (`NAME_MAX` is counted in bytes) -/
def utf8Len (s : Str) : Nat := (s.map Char.utf8Size).sum

def nameMax : Nat := 255

/-! ## PurePosixPath -/

structure PPath where
  root : Nat            -- 0 = relative, 1 = "/", 2 = "//" (POSIX keeps exactly two leading slashes)
  tail : List Str
  deriving Repr, DecidableEq

def leadingSlashes : Str → Nat
  | '/' :: cs => leadingSlashes cs + 1
  | _ => 0

/-- `PurePosixPath(s)`: `_parse_path` (splitroot + dropping empty and `.` components). -/
def parsePath (s : Str) : PPath :=
  let n := leadingSlashes s
  { root := if n = 0 then 0 else if n = 2 then 2 else 1,
    tail := (splitSlash s).filter (fun c => c ≠ [] ∧ c ≠ dot) }

/-- `path.name` -/
def pathName (p : PPath) : Str := p.tail.getLast?.getD []

/-- `name.rfind('.')`-based `suffix`: the text from the last dot, provided the dot is neither the first
nor the last character of the name. -/
def notDot (c : Char) : Bool := !(c == '.')
def isDot (c : Char) : Bool := c == '.'

def suffixOf (name : Str) : Str :=
  let r := name.reverse
  let ext := r.takeWhile notDot
  match r.dropWhile notDot with
  | [] => []                                  -- no dot
  | _ :: before => if before = [] ∨ ext = [] then [] else '.' :: ext.reverse

/-- `path.suffixes` -/
def suffixesOf (name : Str) : List Str :=
  if name.getLast? = some '.' then []
  else ((splitOnChar '.' (name.dropWhile isDot)).drop 1).map ('.' :: ·)

/-- `"".join(path.suffixes[-2:]) if len(path.suffixes) >= 2 else path.suffix` -/
def compoundSuffix (name : Str) : Str :=
  let ss := suffixesOf name
  if ss.length ≥ 2 then (ss.drop (ss.length - 2)).flatten else suffixOf name

/-- the extension stage of all three validators -/
def extAllowed (allowed : List Str) (name : Str) : Bool :=
  allowed.contains (suffixOf name) || allowed.contains (compoundSuffix name)

/-! ## lstat as seen by `posixpath.realpath` -/

inductive St where
  | missing                 -- ENOENT / ENOTDIR
  | toolong                 -- ENAMETOOLONG
  | node (n : Node)
  deriving Repr, DecidableEq

/-- `os.lstat(join(dir, name))` where `dir` is already physical. -/
def lstatAt (fs : Fs) (dir : List Str) (name : Str) : St :=
  match fs.get dir with
  | some .dir =>
    if utf8Len name > nameMax then .toolong
    else match fs.get (dir ++ [name]) with
      | some n => .node n
      | none => .missing
  | _ => .missing

def isAbsText (t : Str) : Bool := t.head? = some '/'

/-! ## posixpath.realpath (strict=False) -/

inductive RP where
  | done (path : List Str)
  | loop (newpath : List Str) (rest : List Str)      -- `return join(newpath, rest), False`
  | nul                                              -- `os.lstat` raised ValueError (embedded null byte)
  | fuel
  deriving Repr, DecidableEq

def hasNul (s : Str) : Bool := s.contains (Char.ofNat 0)

/-- `_joinrealpath(path, rest, strict=False, seen)`.  `vis` is the set of links whose resolution is in
progress (`seen[x] is None`); a resolved link is simply resolved again (the cache of the original only
saves work: the file system does not change during the call). -/
def rpWalk (fs : Fs) : Nat → List Str → List Str → List (List Str) → RP
  | 0, _, _, _ => .fuel
  | _ + 1, path, [], _ => .done path
  | f + 1, path, name :: rest, vis =>
    if name = [] ∨ name = dot then rpWalk fs f path rest vis
    else if name = dotdot then rpWalk fs f path.dropLast rest vis
    else if hasNul name then .nul
    else
      match lstatAt fs path name with
      | .node (.link t) =>
        let np := path ++ [name]
        if vis.contains np then .loop np rest
        else
          match rpWalk fs f (if isAbsText t then [] else path) (splitSlash t) (np :: vis) with
          | .done p' => rpWalk fs f p' rest vis
          | .loop lp lrest => .loop lp (lrest ++ rest)
          | .nul => .nul
          | .fuel => .fuel
      | _ => rpWalk fs f (path ++ [name]) rest vis

/-- `posixpath.normpath` on an absolute path given by components. -/
def normLex (comps : List Str) : List Str :=
  comps.foldl (fun acc c => if c = [] ∨ c = dot then acc else if c = dotdot then acc.dropLast else acc ++ [c]) []

/-! ## The kernel's path walk (`stat`, follows every link) -/

inductive KR where
  | ok (phys : List Str)
  | enoent                  -- ENOENT / ENOTDIR (pathlib ignores both)
  | eloop
  | toolong
  | fuel
  deriving Repr, DecidableEq

def kWalk (fs : Fs) : Nat → List Str → List Str → List (List Str) → KR
  | 0, _, _, _ => .fuel
  | _ + 1, cur, [], _ => .ok cur
  | f + 1, cur, part :: rest, vis =>
    match fs.get cur with
    | some .dir =>
      if part = [] ∨ part = dot then kWalk fs f cur rest vis
      else if part = dotdot then kWalk fs f cur.dropLast rest vis
      else if utf8Len part > nameMax then .toolong
      else
        match fs.get (cur ++ [part]) with
        | none => .enoent
        | some (.link t) =>
          let np := cur ++ [part]
          if vis.contains np then .eloop
          else
            match kWalk fs f (if isAbsText t then [] else cur) (splitSlash t) (np :: vis) with
            | .ok c' => kWalk fs f c' rest vis
            | e => e
        | some _ => kWalk fs f (cur ++ [part]) rest vis
    | _ => .enoent

/-- `os.stat(path)` for an absolute path given by its components. -/
def kstat (fs : Fs) (fuel : Nat) (parts : List Str) : KR := kWalk fs fuel [] parts []

/-! ## Validation outcomes -/

inductive PErr where
  | dotdot      -- "Path traversal not allowed (..)"
  | symlink     -- "Symlink(s) in path ..."
  | resolve     -- "Path resolution failed: ..." (any exception inside the try block)
  | ext         -- "Invalid file extension"
  | fuel        -- model ran out of fuel (never a verdict)
  deriving Repr, DecidableEq

/-- `Path.exists()`: ENOENT/ENOTDIR/ELOOP are swallowed, every other OSError propagates (and is turned
into "Path resolution failed" by the enclosing `except Exception`). -/
def pyExists (fs : Fs) (fuel : Nat) (parts : List Str) : Except PErr Bool :=
  if parts.any hasNul then .ok false             -- `except ValueError: return False`
  else match kstat fs fuel parts with
  | .ok _ => .ok true
  | .enoent => .ok false
  | .eloop => .ok false
  | .toolong => .error .resolve
  | .fuel => .error .fuel

/-- `Path.is_symlink()`: `lstat` follows every component but the last.  ENOENT/ENOTDIR/ELOOP and ValueError give
`False`; any other OSError (ENAMETOOLONG) propagates. -/
def pyIsSymlink (fs : Fs) (fuel : Nat) (parts : List Str) : Except PErr Bool :=
  match parts.getLast? with
  | none => .ok false
  | some last =>
    if parts.any hasNul then .ok false
    else if last = dotdot ∨ last = dot ∨ last = [] then
      match kstat fs fuel parts with
      | .toolong => .error .resolve
      | .fuel => .error .fuel
      | _ => .ok false
    else match kstat fs fuel parts.dropLast with
      | .ok d => match fs.get d with
        | some .dir =>
          if utf8Len last > nameMax then .error .resolve
          else match fs.get (d ++ [last]) with
            | some (.link _) => .ok true
            | _ => .ok false
        | _ => .ok false
      | .toolong => .error .resolve
      | .fuel => .error .fuel
      | _ => .ok false

def statProbe (fs : Fs) (fuel : Nat) (p : List Str) : Except PErr (List Str) :=
  if p.any hasNul then .error .resolve              -- ValueError from `p.stat()` is not an OSError
  else match kstat fs fuel p with
    | .eloop => .error .resolve                     -- RuntimeError("Symlink loop from ...")
    | .fuel => .error .fuel
    | _ => .ok p

def pyResolve (fs : Fs) (fuel : Nat) (parts : List Str) : Except PErr (List Str) :=
  match rpWalk fs fuel [] parts [] with
  | .fuel => .error .fuel
  | .nul => .error .resolve                          -- ValueError: embedded null byte
  | .done p => statProbe fs fuel p
  | .loop np rest => statProbe fs fuel (normLex (np ++ rest))

/-- system-symlink exemption: `symlink_depth <= depthBound and str(current.resolve()).startswith(prefix)`,
with `prefix = "/" ++ first ++ "/"`. -/
structure Exempt where
  depthBound : Nat
  first : Str

def exemptOk (ex : Exempt) (depth : Nat) (resolvedTarget : List Str) : Bool :=
  decide (depth ≤ ex.depthBound) && (resolvedTarget.head? == some ex.first) && decide (resolvedTarget.length ≥ 2)

/-- The two shapes of the symlink test that the translator recognises in the source (Gen/Paths.lean):
`useExists`: the walk tests `current.exists() and current.is_symlink()` (true; the code before commit 15db00f) or just
`current.is_symlink()` (false; the code since); `guarded`: the walk runs only `if absolute != resolved` (true; before
15db00f) or always (false; since). -/
structure WalkCfg where
  useExists : Bool
  guarded : Bool
  deriving Repr, DecidableEq

/-- `X.exists() and X.is_symlink()` / `X.is_symlink()` -/
def linkTest (fs : Fs) (fuel : Nat) (useExists : Bool) (cur : List Str) : Except PErr Bool :=
  if useExists then
    match pyExists fs fuel cur with
    | .error e => .error e
    | .ok false => .ok false
    | .ok true => pyIsSymlink fs fuel cur
  else pyIsSymlink fs fuel cur

/-- the component walk: `for part in absolute.parts[1:]: current = current / part; if <linkTest current>: …` -/
def walkPrefixes (fs : Fs) (fuel : Nat) (cfg : WalkCfg) (ex : Exempt) : List Str → List Str → Except PErr Unit
  | _, [] => .ok ()
  | pre, part :: rest =>
    let cur := pre ++ [part]
    match linkTest fs fuel cfg.useExists cur with
    | .error e => .error e
    | .ok false => walkPrefixes fs fuel cfg ex cur rest
    | .ok true =>
      match pyResolve fs fuel cur with
      | .error er => .error er
      | .ok rt =>
        if exemptOk ex (cur.length + 1) rt then walkPrefixes fs fuel cfg ex cur rest
        else .error .symlink

/-- `path.absolute()`: (root kind, components). -/
def pyAbsolute (cwd : List Str) (p : PPath) : Nat × List Str :=
  if p.root = 0 then (1, cwd ++ p.tail) else (p.root, p.tail)

/-- the symlink stage (the `try:` block of the three validators) -/
def symlinkStage (fs : Fs) (fuel : Nat) (cfg : WalkCfg) (ex : Exempt) (cwd : List Str) (s : Str) : Except PErr Unit :=
  let a := pyAbsolute cwd (parsePath s)
  match pyResolve fs fuel a.2 with
  | .error e => .error e
  | .ok resolved =>
    if cfg.guarded = false ∨ a.1 ≠ 1 ∨ a.2 ≠ resolved then walkPrefixes fs fuel cfg ex [] a.2 else .ok ()

def dotdotStage (s : Str) : Except PErr Unit :=
  if (parsePath s).tail.contains dotdot then .error .dotdot else .ok ()

def extStage (allowed : List Str) (s : Str) : Except PErr Unit :=
  if extAllowed allowed (pathName (parsePath s)) then .ok () else .error .ext

inductive Stage where
  | dotdot | symlink | ext
  deriving Repr, DecidableEq

def runStage (fs : Fs) (fuel : Nat) (cfg : WalkCfg) (ex : Exempt) (allowed : List Str) (cwd : List Str) (s : Str) : Stage → Except PErr Unit
  | .dotdot => dotdotStage s
  | .symlink => symlinkStage fs fuel cfg ex cwd s
  | .ext => extStage allowed s

/-- the validators run their stages in the order found in the source (Gen.stageOrder): today
`WriteTool._validate_path` and `file_ops.validate_octave_path` check '..', symlinks, extension;
`ValidateTool._validate_path` checks symlinks, '..', extension.  The first failing stage decides. -/
def validatePath (fs : Fs) (fuel : Nat) (cfg : WalkCfg) (ex : Exempt) (allowed : List Str) (cwd : List Str) (s : Str) : List Stage → Except PErr Unit
  | [] => .ok ()
  | st :: rest =>
    match runStage fs fuel cfg ex allowed cwd s st with
    | .error e => .error e
    | .ok () => validatePath fs fuel cfg ex allowed cwd s rest

def orderA : List Stage := [.dotdot, .symlink, .ext]
def orderB : List Stage := [.symlink, .dotdot, .ext]

/-- The re-check just before writing: `if path_obj.exists() and path_obj.is_symlink(): return error`. -/
def recheckRefuses (fs : Fs) (fuel : Nat) (useExists : Bool) (cwd : List Str) (s : Str) : Except PErr Bool :=
  linkTest fs fuel useExists (pyAbsolute cwd (parsePath s)).2

/-! ## Schema names -/

def isUpperAZ (c : Char) : Bool := 'A' ≤ c && c ≤ 'Z'
def isDigit09 (c : Char) : Bool := '0' ≤ c && c ≤ '9'
def schemaBodyChar (c : Char) : Bool := isUpperAZ c || isDigit09 c || c = '_'

/-- `SCHEMA_NAME_PATTERN.match(n)` for `^[A-Z][A-Z0-9_]*$` (note: `$` also matches before a final newline). -/
def schemaNameOk (n : Str) : Bool :=
  match n with
  | [] => false
  | c :: cs =>
    isUpperAZ c && (if cs.getLast? = some '\n' then cs.dropLast.all schemaBodyChar else cs.all schemaBodyChar)

def octMd : Str := ".oct.md".toList

/-- the two file-name patterns tried in each directory, in source order -/
def schemaCandidates (n : Str) : List Str := [n.map Char.toLower ++ octMd, n ++ octMd]

/-- `dir / pattern` (pathlib join: an absolute right operand replaces the left one). -/
def joinPath (dir : List Str) (s : Str) : List Str :=
  let p := parsePath s
  if p.root = 0 then dir ++ p.tail else p.tail

/-- every path whose `exists()` is evaluated by `load_schema_by_name`, in order, and the one opened. -/
def schemaProbe (fs : Fs) (fuel : Nat) (dirs : List (List Str)) (n : Str) : List (List Str) × Option (List Str) :=
  if schemaNameOk n then
    let cands := (dirs.map fun d => (schemaCandidates n).map (joinPath d)).flatten
    let rec go : List (List Str) → List (List Str) → List (List Str) × Option (List Str)
      | [], acc => (acc.reverse, none)
      | q :: qs, acc =>
        match pyExists fs fuel q with
        | .ok true => ((q :: acc).reverse, some q)
        | .ok false => go qs (q :: acc)
        | .error _ => ((q :: acc).reverse, none)        -- OSError (ENAMETOOLONG) escapes: nothing is opened
    go cands []
  else ([], none)

/-! ## frozen@sha256 references -/

def isHexChar (c : Char) : Bool := isDigit09 c || ('a' ≤ c && c ≤ 'f') || ('A' ≤ c && c ≤ 'F')

def frozenPrefix : Str := "frozen@sha256:".toList
def shaPrefix : Str := "sha256:".toList

/-- `re.fullmatch(r"frozen@sha256:([0-9a-fA-F]{64})", ref)` → group 1 -/
def parseFrozen (ref : Str) : Option Str :=
  if frozenPrefix.isPrefixOf ref then
    let h := ref.drop frozenPrefix.length
    if h.length = 64 ∧ h.all isHexChar then some h else none
  else none

inductive FErr where
  | invalid | notFound | mismatch | io | fuel
  deriving Repr, DecidableEq

/-- `open(path, "rb").read()` (follows links) -/
def readFile (fs : Fs) (fuel : Nat) (parts : List Str) : Option Str :=
  match kstat fs fuel parts with
  | .ok p => match fs.get p with
    | some (.file c) => some c
    | _ => none
  | _ => none

def existsB (fs : Fs) (fuel : Nat) (parts : List Str) : Except FErr Bool :=
  match pyExists fs fuel parts with
  | .ok b => .ok b
  | .error .fuel => .error .fuel
  | .error _ => .error .io

/-- `resolve_hermetic_standard(ref, cache_dir)`; `H` is the hex digest function. -/
def resolveStandard (H : Str → Str) (fs : Fs) (fuel : Nat) (cache : List Str) (pfxLen : Nat) (ref : Str) : Except FErr (List Str) :=
  if ref = "latest".toList then
    let q := cache ++ ["default.oct.md".toList]
    match existsB fs fuel q with
    | .error e => .error e
    | .ok true => .ok q
    | .ok false => .error .notFound
  else if frozenPrefix.isPrefixOf ref then
    match parseFrozen ref with
    | none => .error .invalid
    | some h =>
      let digest := h.map Char.toLower
      let q := joinPath cache (digest.take pfxLen ++ octMd)
      match existsB fs fuel q with
      | .error e => .error e
      | .ok false => .error .notFound
      | .ok true =>
        match readFile fs fuel q with
        | none => .error .io
        | some c => if shaPrefix ++ H c = shaPrefix ++ digest then .ok q else .error .mismatch
  else .error .invalid

/-! ## validate_source_uri -/

inductive UErr where
  | absolute | resolveFailed | outside | loopRaise | fuel
  deriving Repr, DecidableEq

def resolveU (fs : Fs) (fuel : Nat) (parts : List Str) : Except UErr (List Str) :=
  match rpWalk fs fuel [] parts [] with
  | .fuel => .error .fuel
  | .nul => .error .resolveFailed                            -- ValueError is caught
  | .done p =>
    if p.any hasNul then .error .resolveFailed
    else match kstat fs fuel p with
      | .eloop => .error .loopRaise                          -- RuntimeError is not caught by the function
      | .fuel => .error .fuel
      | _ => .ok p
  | .loop np rest =>
    let p := normLex (np ++ rest)
    if p.any hasNul then .error .resolveFailed
    else match kstat fs fuel p with
      | .eloop => .error .loopRaise
      | .fuel => .error .fuel
      | _ => .ok p

/-- `validate_source_uri(u, base)` for an absolute `base` (components).  `fixpoint`: the function re-resolves
its result and demands a fixed point (Gen.sourceUriFixpoint; true since commit 7419f17). -/
def validateSourceUri (fs : Fs) (fuel : Nat) (fixpoint : Bool) (base : List Str) (u : Str) : Except UErr (List Str) :=
  match resolveU fs fuel base with
  | .error e => .error (if e = .resolveFailed then .loopRaise else e)
  | .ok b =>
    if u.head? = some '/' ∨ (u.length > 1 ∧ u[1]? = some ':') then .error .absolute
    else
      match resolveU fs fuel (b ++ (parsePath u).tail) with
      | .error e => .error e
      | .ok r =>
        if fixpoint then
          match resolveU fs fuel r with
          | .error e => .error e
          | .ok r' => if r' ≠ r then .error .resolveFailed else if b.isPrefixOf r then .ok r else .error .outside
        else if b.isPrefixOf r then .ok r else .error .outside

/-! ## Flattened file-operation programs (Gen.programs) -/

/-- an op of a generated program: (kind, class, name); kind = validate | guard-return | recheck-return | loop | io;
class (for io) = read | create | replace | meta | stdin | write-call -/
abbrev GOp := String × String × String

def isFileIO (op : GOp) : Bool :=
  op.1 = "io" && (op.2.1 = "read" || op.2.1 = "create" || op.2.1 = "replace" || op.2.1 = "write-call")

/-- what runs when the validator refuses: the `guard-return` right after `validate` leaves the function -/
def runRefused : List GOp → List GOp
  | [] => []
  | op :: rest =>
    if op.1 = "validate" then
      match rest with
      | g :: _ => if g.1 = "guard-return" then [] else runRefused rest
      | [] => []
    else if isFileIO op || op.1 = "loop" then op :: runRefused rest
    else runRefused rest

/-- what runs after a successful validation when the final component is a symlink that the re-check sees -/
def runLinkSeen : List GOp → List GOp
  | [] => []
  | op :: rest =>
    if op.1 = "recheck-return" then []
    else if (op.1 = "io" && (op.2.1 = "replace" || op.2.2 = "tempfile.mkstemp")) || op.1 = "loop" then op :: runLinkSeen rest
    else runLinkSeen rest

/-! ## Checking that a finite table is a well-formed tree -/

def wfCheck (l : List (List Str × Node)) : Bool :=
  l.all fun e =>
    match e.1.getLast? with
    | none => true
    | some n => decide (utf8Len n ≤ nameMax) &&
        (e.1.dropLast == [] || (l.find? (fun e' => e'.1 == e.1.dropLast)).map (·.2) == some Node.dir)

/-- known-finding class F60: resolving `base / u` runs into a symlink cycle (`realpath(strict=False)` then
returns a partially resolved path). -/
def uriMeetsLoop (fs : Fs) (fuel : Nat) (base : List Str) (u : Str) : Bool :=
  match resolveU fs fuel base with
  | .ok b => match rpWalk fs fuel [] (b ++ (parsePath u).tail) [] with
    | .loop _ _ => true
    | _ => false
  | .error _ => false

end Octave
