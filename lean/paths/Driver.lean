/-
JSON-lines driver for the paths engine (C19): one request per line on stdin, one reply per line.
The driver is stateful: an `fs` request installs the file system / cwd / hash table used by the requests after it.

  {"op":"fs","nodes":[[[comp,...], "d" | "f" | {"f":content} | {"l":target}],...],"cwd":[comp,...],"H":[[content,hex],...]} -> {"ok":true}
  {"op":"vp","p":str}                         -> {"write":v,"validate":v,"fileops":v,"recheck":r}   v = ok|dotdot|symlink|resolve|ext|fuel
  {"op":"os","parts":[comp,...]}              -> {"exists":..,"islink":bool,"resolve":[..]|err}      (absolute path by components)
  {"op":"schema","dirs":[[comp,...],...],"n":str} -> {"match":bool,"probed":[[..],...],"opened":[..]|null}
  {"op":"frozen","cache":[comp,...],"ref":str} -> {"r":"ok","q":[..]} | {"r":"invalid|notFound|mismatch|io|fuel"}
  {"op":"uri","base":[comp,...],"u":str}      -> {"r":"ok","q":[..]} | {"r":"absolute|resolveFailed|outside|loopRaise|fuel"}
-/
import Lean.Data.Json
import Octave.Model.Paths
import Octave.Gen.Paths
open Lean Octave

structure DState where
  fs : Fs := Fs.ofList []
  cwd : List Str := []
  H : List (Str × Str) := []

def fuel : Nat := 100000

def strs (a : Array String) : List Str := a.toList.map String.toList
def outPath (p : List Str) : Json := toJson (p.map String.ofList)

def nodeOfJson (j : Json) : Except String Node :=
  match j with
  | .str "d" => pure .dir
  | .str "f" => pure (.file [])
  | _ => do
    if let .ok t := j.getObjValAs? String "l" then return .link t.toList
    if let .ok c := j.getObjValAs? String "f" then return .file c.toList
    throw "bad node"

def exemptOf (copy : String) : Exempt :=
  match Gen.exemptions.find? (·.1 == copy) with
  | some (_, d, pfx) => ⟨d, ((pfx.toList.drop 1).takeWhile (· ≠ '/'))⟩
  | none => ⟨0, []⟩

def allowedOf (l : List String) : List Str := l.map String.toList

def stageOf : String → Option Stage
  | "dotdot" => some .dotdot
  | "symlink" => some .symlink
  | "ext" => some .ext
  | _ => none

def perr : Except PErr Unit → String
  | .ok () => "ok"
  | .error .dotdot => "dotdot"
  | .error .symlink => "symlink"
  | .error .resolve => "resolve"
  | .error .ext => "ext"
  | .error .fuel => "fuel"

def lookupH (tbl : List (Str × Str)) (c : Str) : Str :=
  match tbl.find? (·.1 == c) with
  | some (_, h) => h
  | none => "?".toList

def handle (st : DState) (j : Json) : DState × Json :=
  match j.getObjValAs? String "op" with
  | .ok "fs" =>
    let r : Except String DState := do
      let nodes ← j.getObjValAs? (Array Json) "nodes"
      let l ← nodes.toList.mapM fun e => do
        let pair ← e.getArr?
        if pair.size ≠ 2 then throw "bad entry"
        let comps : Array String ← fromJson? pair[0]!
        let n ← nodeOfJson pair[1]!
        pure (strs comps, n)
      let cwd : Array String ← j.getObjValAs? (Array String) "cwd"
      let h : Array (Array String) := (j.getObjValAs? (Array (Array String)) "H").toOption.getD #[]
      pure { fs := Fs.ofList l, cwd := strs cwd, H := h.toList.filterMap fun a => if a.size = 2 then some (a[0]!.toList, a[1]!.toList) else none }
    match r with
    | .ok s => (s, Json.mkObj [("ok", true)])
    | .error e => (st, Json.mkObj [("unsupported", e)])
  | .ok "vp" =>
    match j.getObjValAs? String "p" with
    | .ok p =>
      let s := p.toList
      let run (copy : String) (allowed : List String) : String :=
        match Gen.walkCfg.find? (·.1 == copy), (Gen.stageOrder.find? (·.1 == copy)).bind (fun e => e.2.mapM stageOf) with
        | some (_, ue, g), some order => perr (validatePath st.fs fuel ⟨ue, g⟩ (exemptOf copy) (allowedOf allowed) st.cwd s order)
        | _, _ => "unsupported"
      let w := run "write" Gen.allowedExt_write
      let v := run "validate" Gen.allowedExt_validate
      let f := run "fileops" Gen.allowedExt_fileops
      let rcOf (who : String) : Json :=
        match Gen.recheckUsesExists.find? (·.1 == who) with
        | some (_, ue) => match recheckRefuses st.fs fuel ue st.cwd s with
          | .ok b => toJson b
          | .error .fuel => "fuel"
          | .error _ => "raise"
        | none => "unsupported"
      let rc := Json.mkObj [("WriteTool.execute", rcOf "WriteTool.execute"), ("atomic_write_octave", rcOf "atomic_write_octave")]
      (st, Json.mkObj [("write", Json.str w), ("validate", Json.str v), ("fileops", Json.str f), ("recheck", rc)])
    | .error e => (st, Json.mkObj [("unsupported", e)])
  | .ok "os" =>
    match j.getObjValAs? (Array String) "parts" with
    | .ok a =>
      let parts := strs a
      let ex : Json := match pyExists st.fs fuel parts with
        | .ok b => toJson b
        | .error .fuel => "fuel"
        | .error _ => "raise"
      let rs : Json := match pyResolve st.fs fuel parts with
        | .ok p => outPath p
        | .error .fuel => "fuel"
        | .error _ => "raise"
      (st, Json.mkObj [("exists", ex), ("islink", match pyIsSymlink st.fs fuel parts with | .ok b => toJson b | .error .fuel => "fuel" | .error _ => "raise"), ("resolve", rs)])
    | .error e => (st, Json.mkObj [("unsupported", e)])
  | .ok "schema" =>
    let r : Except String Json := do
      let dirs ← j.getObjValAs? (Array (Array String)) "dirs"
      let n ← j.getObjValAs? String "n"
      let (probed, opened) := schemaProbe st.fs fuel (dirs.toList.map strs) n.toList
      pure (Json.mkObj [("match", schemaNameOk n.toList), ("probed", toJson (probed.map fun p => p.map String.ofList)),
                        ("opened", match opened with | some q => outPath q | none => Json.null)])
    match r with
    | .ok o => (st, o)
    | .error e => (st, Json.mkObj [("unsupported", e)])
  | .ok "frozen" =>
    let r : Except String Json := do
      let cache ← j.getObjValAs? (Array String) "cache"
      let ref ← j.getObjValAs? String "ref"
      pure <| match resolveStandard (lookupH st.H) st.fs fuel (strs cache) Gen.frozenPrefixLen ref.toList with
        | .ok q => Json.mkObj [("r", "ok"), ("q", outPath q)]
        | .error .invalid => Json.mkObj [("r", "invalid")]
        | .error .notFound => Json.mkObj [("r", "notFound")]
        | .error .mismatch => Json.mkObj [("r", "mismatch")]
        | .error .io => Json.mkObj [("r", "io")]
        | .error .fuel => Json.mkObj [("r", "fuel")]
    match r with
    | .ok o => (st, o)
    | .error e => (st, Json.mkObj [("unsupported", e)])
  | .ok "uri" =>
    let r : Except String Json := do
      let base ← j.getObjValAs? (Array String) "base"
      let u ← j.getObjValAs? String "u"
      let lp : Json := toJson (uriMeetsLoop st.fs fuel (strs base) u.toList)
      let (tag, q) : String × Option (List Str) := match validateSourceUri st.fs fuel Gen.sourceUriFixpoint (strs base) u.toList with
        | .ok q => ("ok", some q)
        | .error .absolute => ("absolute", none)
        | .error .resolveFailed => ("resolveFailed", none)
        | .error .outside => ("outside", none)
        | .error .loopRaise => ("loopRaise", none)
        | .error .fuel => ("fuel", none)
      pure (Json.mkObj ([("r", (tag : Json)), ("loop", lp)] ++ (match q with | some q => [("q", outPath q)] | none => [])))
    match r with
    | .ok o => (st, o)
    | .error e => (st, Json.mkObj [("unsupported", e)])
  | _ => (st, Json.mkObj [("unsupported", "op")])

partial def loop (h : IO.FS.Stream) (out : IO.FS.Stream) (st : DState) : IO Unit := do
  let line ← h.getLine
  if line.isEmpty then return ()
  let (st', reply) := match Json.parse line with
    | .ok j => handle st j
    | .error e => (st, Json.mkObj [("unsupported", s!"json: {e}")])
  out.putStrLn reply.compress
  loop h out st'

def main : IO Unit := do
  let out ← IO.getStdout
  loop (← IO.getStdin) out {}
  out.flush
