/-
`_apply_changes` / `_apply_mutations` decompose into independent effects on the node list and on META;
lookups after a change follow the single-request spec of `Spec/Effects`.
-/
import Octave.Lemmas.Dict
import Octave.Lemmas.Top
import Octave.Spec.Effects
namespace Octave

def applyTopEffect (ns : List Node) : Option (Str × Option Val) → List Node
  | none => ns
  | some (k, none) => delTop k ns
  | some (k, some v) => setTop k v ns

def runMetaOp (m : List (Str × Val)) : MetaOp → List (Str × Val)
  | .clear => []
  | .step f v => metaStep m (f, v)

theorem foldl_metaStep_eq (m : List (Str × Val)) (pairs : List (Str × JVal)) :
    pairs.foldl metaStep m = (pairs.map (fun p => MetaOp.step p.1 p.2)).foldl runMetaOp m := by
  induction pairs generalizing m with
  | nil => rfl
  | cons p rest ih => simp [List.foldl_cons, runMetaOp, ih]

theorem applyChange_nodes (d : Doc) (c : Str × JVal) :
    (applyChange d c).nodes = applyTopEffect d.nodes (topEffect c) := by
  unfold applyChange topEffect
  cases hc : classify c.1 with
  | metaField f => rfl
  | metaWhole =>
    cases hv : c.2 with
    | obj pairs => simp only [isObj]; split <;> rfl
    | _ => simp [isObj, applyTopEffect]
  | top => simp only; split <;> simp [applyTopEffect]

theorem applyChange_meta (d : Doc) (c : Str × JVal) :
    (applyChange d c).«meta» = (metaOpsOfChange c).foldl runMetaOp d.«meta» := by
  unfold applyChange metaOpsOfChange
  cases hc : classify c.1 with
  | metaField f => simp [runMetaOp]
  | metaWhole =>
    cases hv : c.2 with
    | obj pairs =>
      simp only
      split
      · simp [runMetaOp]
      · simp [foldl_metaStep_eq]
    | _ => simp
  | top => simp only; split <;> simp

theorem applyChange_envelope (d : Doc) (c : Str × JVal) :
    (applyChange d c).front = d.front ∧ (applyChange d c).grammar = d.grammar ∧ (applyChange d c).name = d.name
      ∧ (applyChange d c).sep = d.sep ∧ (applyChange d c).trailing = d.trailing := by
  unfold applyChange
  cases classify c.1 with
  | metaField f => simp
  | metaWhole => cases c.2 <;> simp <;> split <;> simp
  | top => simp only; split <;> simp

theorem applyChanges_nodes (d : Doc) (cs : List (Str × JVal)) :
    (applyChanges d cs).nodes = cs.foldl (fun ns c => applyTopEffect ns (topEffect c)) d.nodes := by
  unfold applyChanges
  induction cs generalizing d with
  | nil => rfl
  | cons c rest ih => simp [List.foldl_cons, ih, applyChange_nodes]

theorem applyChanges_meta (d : Doc) (cs : List (Str × JVal)) :
    (applyChanges d cs).«meta» = (cs.flatMap metaOpsOfChange).foldl runMetaOp d.«meta» := by
  unfold applyChanges
  induction cs generalizing d with
  | nil => rfl
  | cons c rest ih => simp [List.foldl_cons, ih, applyChange_meta, List.foldl_append]

theorem applyChanges_envelope (d : Doc) (cs : List (Str × JVal)) :
    (applyChanges d cs).front = d.front ∧ (applyChanges d cs).grammar = d.grammar ∧ (applyChanges d cs).name = d.name
      ∧ (applyChanges d cs).sep = d.sep ∧ (applyChanges d cs).trailing = d.trailing := by
  unfold applyChanges
  induction cs generalizing d with
  | nil => simp
  | cons c rest ih =>
    have h := applyChange_envelope d c
    have := ih (applyChange d c)
    simp only [List.foldl_cons]
    refine ⟨this.1.trans h.1, this.2.1.trans h.2.1, this.2.2.1.trans h.2.2.1, this.2.2.2.1.trans h.2.2.2.1, this.2.2.2.2.trans h.2.2.2.2⟩

theorem applyRequest_nodes (d : Doc) (r : Request) :
    (applyRequest d r).nodes = r.changes.foldl (fun ns c => applyTopEffect ns (topEffect c)) d.nodes := by
  simp [applyRequest, applyMutations, applyChanges_nodes]

theorem applyRequest_meta (d : Doc) (r : Request) :
    (applyRequest d r).«meta» = (metaOps r).foldl runMetaOp d.«meta» := by
  simp [applyRequest, applyMutations, applyChanges_meta, metaOps, List.foldl_append, foldl_metaStep_eq]

theorem applyRequest_envelope (d : Doc) (r : Request) :
    (applyRequest d r).front = d.front ∧ (applyRequest d r).grammar = d.grammar ∧ (applyRequest d r).name = d.name
      ∧ (applyRequest d r).sep = d.sep ∧ (applyRequest d r).trailing = d.trailing := by
  simpa [applyRequest, applyMutations] using applyChanges_envelope d r.changes

theorem applyRequests_nodes (d : Doc) (rs : List Request) :
    (applyRequests d rs).nodes = (rs.flatMap (·.changes)).foldl (fun ns c => applyTopEffect ns (topEffect c)) d.nodes := by
  unfold applyRequests
  induction rs generalizing d with
  | nil => rfl
  | cons r rest ih => simp [List.foldl_cons, ih, applyRequest_nodes, List.foldl_append]

theorem applyRequests_meta (d : Doc) (rs : List Request) :
    (applyRequests d rs).«meta» = (rs.flatMap metaOps).foldl runMetaOp d.«meta» := by
  unfold applyRequests
  induction rs generalizing d with
  | nil => rfl
  | cons r rest ih => simp [List.foldl_cons, ih, applyRequest_meta, List.foldl_append]

theorem applyRequests_envelope (d : Doc) (rs : List Request) :
    (applyRequests d rs).front = d.front ∧ (applyRequests d rs).grammar = d.grammar ∧ (applyRequests d rs).name = d.name
      ∧ (applyRequests d rs).sep = d.sep ∧ (applyRequests d rs).trailing = d.trailing := by
  unfold applyRequests
  induction rs generalizing d with
  | nil => simp
  | cons r rest ih =>
    have h := applyRequest_envelope d r
    have := ih (applyRequest d r)
    simp only [List.foldl_cons]
    refine ⟨this.1.trans h.1, this.2.1.trans h.2.1, this.2.2.1.trans h.2.2.1, this.2.2.2.1.trans h.2.2.2.1, this.2.2.2.2.trans h.2.2.2.2⟩

/-! ### lookups follow the spec -/

theorem lookupTop_applyTopEffect (k : Str) (ns : List Node) (c : Str × JVal) :
    lookupTop k (applyTopEffect ns (topEffect c)) = specTop k (lookupTop k ns) c := by
  unfold specTop
  cases h : topEffect c with
  | none => rfl
  | some e =>
    obtain ⟨k', r⟩ := e
    cases r with
    | none =>
      by_cases hk : k' = k
      · subst hk; simp [applyTopEffect, lookupTop_delTop_self]
      · simp [applyTopEffect, hk, lookupTop_delTop_ne k' k (Ne.symm hk)]
    | some v =>
      by_cases hk : k' = k
      · subst hk; simp [applyTopEffect, lookupTop_setTop_self]
      · simp [applyTopEffect, hk, lookupTop_setTop_ne k' k (Ne.symm hk)]

theorem dictGet_runMetaOp (f : Str) (m : List (Str × Val)) (op : MetaOp) :
    dictGet (runMetaOp m op) f = specMeta f (dictGet m f) op := by
  cases op with
  | clear => simp [runMetaOp, specMeta, dictGet]
  | step f' v =>
    by_cases hf : f' = f
    · subst hf
      by_cases hd : isDel v = true
      · simp [runMetaOp, specMeta, metaStep, hd, dictGet_dictDel_self]
      · simp [runMetaOp, specMeta, metaStep, hd, dictGet_dictSet_self]
    · by_cases hd : isDel v = true
      · simp [runMetaOp, specMeta, metaStep, hd, hf, dictGet_dictDel_ne _ f' f (Ne.symm hf)]
      · simp [runMetaOp, specMeta, metaStep, hd, hf, dictGet_dictSet_ne _ f' f _ (Ne.symm hf)]

/-! ### frame -/

theorem applyTopEffect_filter_unnamed (named : Str → Bool) (ns : List Node) (e : Option (Str × Option Val))
    (h : ∀ k r, e = some (k, r) → named k = true) :
    (applyTopEffect ns e).filter (unnamedNode named) = ns.filter (unnamedNode named) := by
  cases e with
  | none => rfl
  | some p =>
    obtain ⟨k, r⟩ := p
    have hk := h k r rfl
    cases r with
    | none => exact delTop_filter_unnamed named k hk ns
    | some v => exact setTop_filter_unnamed named k hk v ns

theorem runMetaOp_filter_unnamed (named : Str → Bool) (m : List (Str × Val)) (op : MetaOp)
    (h : ∀ f, op.names f = true → named f = true) :
    (runMetaOp m op).filter (fun p => !named p.1) = m.filter (fun p => !named p.1) := by
  cases op with
  | clear =>
    have : ∀ f, named f = true := fun f => h f rfl
    simp [runMetaOp, this]
  | step f v =>
    have hf : named f = true := h f (by simp [MetaOp.names])
    simp only [runMetaOp, metaStep]
    split
    · exact dictDel_filter_unnamed named m f hf
    · exact dictSet_filter_unnamed named m f _ hf

end Octave
