/-
Lemmas about the top-level node list operations of `_apply_changes` (`setFirst`, `setTop`, `delTop`).
-/
import Octave.Model.Changes
namespace Octave

/-- a node is "unnamed" when it is not an `Assignment` whose key is named. -/
def unnamedNode (named : Str → Bool) : Node → Bool
  | .assign _ k _ _ => !named k
  | _ => true

theorem isAssignKey_unnamed (named : Str → Bool) (k : Str) (hk : named k = true) (n : Node)
    (h : Node.isAssignKey k n = true) : unnamedNode named n = false := by
  cases n with
  | assign lead key v trail =>
    have : key = k := by simpa [Node.isAssignKey] using h
    subst this
    simp [unnamedNode, hk]
  | _ => simp [Node.isAssignKey] at h

/-! ### `setFirst` -/

theorem setFirst_none_iff (k : Str) (v : Val) (ns : List Node) : setFirst k v ns = none ↔ hasAssign k ns = false := by
  induction ns with
  | nil => simp [setFirst, hasAssign]
  | cons n rest ih =>
    cases n with
    | assign lead key old trail =>
      by_cases h : key = k
      · simp [setFirst, hasAssign, Node.isAssignKey, h]
      · simp only [hasAssign] at ih
        simp [setFirst, hasAssign, Node.isAssignKey, h, ih]
    | block _ _ _ _ => simp only [hasAssign] at ih; simp [setFirst, hasAssign, Node.isAssignKey, ih]
    | sect _ _ _ _ _ => simp only [hasAssign] at ih; simp [setFirst, hasAssign, Node.isAssignKey, ih]
    | comment _ => simp only [hasAssign] at ih; simp [setFirst, hasAssign, Node.isAssignKey, ih]

/-- the first occurrence is updated in place: same position, same comments, nothing else moves. -/
theorem setFirst_some_iff (k : Str) (v : Val) (ns ns' : List Node) :
    setFirst k v ns = some ns' ↔
      ∃ pre lead old trail post, ns = pre ++ .assign lead k old trail :: post ∧ hasAssign k pre = false
        ∧ ns' = pre ++ .assign lead k v trail :: post := by
  induction ns generalizing ns' with
  | nil => simp [setFirst]
  | cons n rest ih =>
    have other : ∀ (m : Node), Node.isAssignKey k m = false →
        (setFirst k v (m :: rest) = (setFirst k v rest).map (m :: ·)) →
        (setFirst k v (m :: rest) = some ns' ↔
          ∃ pre lead old trail post, m :: rest = pre ++ .assign lead k old trail :: post ∧ hasAssign k pre = false
            ∧ ns' = pre ++ .assign lead k v trail :: post) := by
      intro m hm hdef
      rw [hdef]
      constructor
      · intro h
        cases hr : setFirst k v rest with
        | none => simp [hr] at h
        | some r =>
          simp only [hr, Option.map_some, Option.some.injEq] at h
          obtain ⟨pre, lead, old, trail, post, h1, h2, h3⟩ := (ih r).mp hr
          refine ⟨m :: pre, lead, old, trail, post, by simp [h1], ?_, by simp [← h, h3]⟩
          simp [hasAssign, hm] at h2 ⊢
          exact h2
      · rintro ⟨pre, lead, old, trail, post, h1, h2, h3⟩
        cases pre with
        | nil =>
          simp only [List.nil_append, List.cons.injEq] at h1
          rw [h1.1] at hm
          simp [Node.isAssignKey] at hm
        | cons p pre' =>
          simp only [List.cons_append, List.cons.injEq] at h1
          obtain ⟨rfl, h1⟩ := h1
          have h2' : hasAssign k pre' = false := by
            simp [hasAssign] at h2 ⊢
            exact h2.2
          have := (ih (pre' ++ .assign lead k v trail :: post)).mpr ⟨pre', lead, old, trail, post, h1, h2', rfl⟩
          simp [this, h3]
    cases n with
    | assign lead key old trail =>
      by_cases h : key = k
      · subst h
        constructor
        · intro hs
          simp only [setFirst, ↓reduceIte, Option.some.injEq] at hs
          exact ⟨[], lead, old, trail, rest, rfl, by simp [hasAssign], by simp [← hs]⟩
        · rintro ⟨pre, lead', old', trail', post, h1, h2, h3⟩
          cases pre with
          | nil =>
            simp only [List.nil_append, List.cons.injEq, Node.assign.injEq] at h1
            obtain ⟨⟨rfl, -, rfl, rfl⟩, rfl⟩ := h1
            simp [setFirst, h3]
          | cons p pre' =>
            simp only [List.cons_append, List.cons.injEq] at h1
            rw [← h1.1] at h2
            simp [hasAssign, Node.isAssignKey] at h2
      · exact other _ (by simp [Node.isAssignKey, h]) (by simp [setFirst, h])
    | block _ _ _ _ => exact other _ (by simp [Node.isAssignKey]) (by simp [setFirst])
    | sect _ _ _ _ _ => exact other _ (by simp [Node.isAssignKey]) (by simp [setFirst])
    | comment _ => exact other _ (by simp [Node.isAssignKey]) (by simp [setFirst])

theorem setFirst_filter_unnamed (named : Str → Bool) (k : Str) (hk : named k = true) (v : Val) (ns ns' : List Node)
    (h : setFirst k v ns = some ns') : ns'.filter (unnamedNode named) = ns.filter (unnamedNode named) := by
  obtain ⟨pre, lead, old, trail, post, h1, _, h3⟩ := (setFirst_some_iff k v ns ns').mp h
  subst h1 h3
  simp [List.filter_append, unnamedNode, hk]

/-! ### `setTop`, `delTop` : frame -/

theorem setTop_filter_unnamed (named : Str → Bool) (k : Str) (hk : named k = true) (v : Val) (ns : List Node) :
    (setTop k v ns).filter (unnamedNode named) = ns.filter (unnamedNode named) := by
  unfold setTop
  cases h : setFirst k v ns with
  | some ns' => exact setFirst_filter_unnamed named k hk v ns ns' h
  | none => simp [List.filter_append, unnamedNode, hk]

theorem delTop_filter_unnamed (named : Str → Bool) (k : Str) (hk : named k = true) (ns : List Node) :
    (delTop k ns).filter (unnamedNode named) = ns.filter (unnamedNode named) := by
  unfold delTop
  rw [List.filter_filter]
  apply List.filter_congr
  intro n _
  cases hn : Node.isAssignKey k n with
  | false => simp
  | true => simp [isAssignKey_unnamed named k hk n hn]

/-! ### `lookupTop` after `setTop` / `delTop` -/

theorem lookupTop_append_of_not_has (k : Str) (a b : List Node) (h : hasAssign k a = false) :
    lookupTop k (a ++ b) = lookupTop k b := by
  induction a with
  | nil => rfl
  | cons n rest ih =>
    have hr : hasAssign k rest = false := by simp [hasAssign] at h ⊢; exact h.2
    cases n with
    | assign lead key v trail =>
      have : key ≠ k := by
        intro e
        simp [hasAssign, Node.isAssignKey, e] at h
      simp [lookupTop, this, ih hr]
    | _ => simp [lookupTop, ih hr]

theorem lookupTop_none_iff (k : Str) (ns : List Node) : lookupTop k ns = none ↔ hasAssign k ns = false := by
  induction ns with
  | nil => simp [lookupTop, hasAssign]
  | cons n rest ih =>
    simp only [hasAssign] at ih
    cases n with
    | assign lead key v trail =>
      by_cases h : key = k <;> simp [lookupTop, hasAssign, Node.isAssignKey, h, ih]
    | _ => simp [lookupTop, hasAssign, Node.isAssignKey, ih]

theorem lookupTop_setTop_self (k : Str) (v : Val) (ns : List Node) : lookupTop k (setTop k v ns) = some v := by
  unfold setTop
  cases h : setFirst k v ns with
  | some ns' =>
    obtain ⟨pre, lead, old, trail, post, _, h2, h3⟩ := (setFirst_some_iff k v ns ns').mp h
    subst h3
    simp [lookupTop_append_of_not_has k pre _ h2, lookupTop]
  | none =>
    have := (setFirst_none_iff k v ns).mp h
    simp [lookupTop_append_of_not_has k ns _ this, lookupTop]

theorem lookupTop_append (k : Str) (a b : List Node) :
    lookupTop k (a ++ b) = match lookupTop k a with | some v => some v | none => lookupTop k b := by
  induction a with
  | nil => simp [lookupTop]
  | cons n rest ih =>
    cases n with
    | assign lead key v trail =>
      by_cases h : key = k <;> simp [lookupTop, h, ih]
    | _ => simp [lookupTop, ih]

theorem lookupTop_setTop_ne (k j : Str) (hj : j ≠ k) (v : Val) (ns : List Node) :
    lookupTop j (setTop k v ns) = lookupTop j ns := by
  unfold setTop
  cases h : setFirst k v ns with
  | some ns' =>
    obtain ⟨pre, lead, old, trail, post, h1, _, h3⟩ := (setFirst_some_iff k v ns ns').mp h
    subst h1 h3
    simp [lookupTop_append, lookupTop, Ne.symm hj]
  | none =>
    simp only [lookupTop_append, lookupTop, Ne.symm hj, ↓reduceIte]
    cases lookupTop j ns <;> rfl

theorem hasAssign_delTop_self (k : Str) (ns : List Node) : hasAssign k (delTop k ns) = false := by
  simp [hasAssign, delTop, List.any_filter]

theorem lookupTop_delTop_self (k : Str) (ns : List Node) : lookupTop k (delTop k ns) = none :=
  (lookupTop_none_iff k _).mpr (hasAssign_delTop_self k ns)

theorem lookupTop_delTop_ne (k j : Str) (hj : j ≠ k) (ns : List Node) : lookupTop j (delTop k ns) = lookupTop j ns := by
  induction ns with
  | nil => rfl
  | cons n rest ih =>
    cases n with
    | assign lead key v trail =>
      by_cases h : key = k
      · subst h
        have : lookupTop j (Node.assign lead key v trail :: rest) = lookupTop j rest := by simp [lookupTop, Ne.symm hj]
        rw [this, ← ih]
        simp [delTop, Node.isAssignKey]
      · have hb : Node.isAssignKey k (Node.assign lead key v trail) = false := by simp [Node.isAssignKey, h]
        simp only [delTop, List.filter_cons, hb, Bool.not_false, ↓reduceIte, lookupTop]
        split
        · rfl
        · exact ih
    | block a b c e =>
      have hb : Node.isAssignKey k (Node.block a b c e) = false := rfl
      simp only [delTop, List.filter_cons, hb, Bool.not_false, ↓reduceIte, lookupTop]
      exact ih
    | sect a b c e f =>
      have hb : Node.isAssignKey k (Node.sect a b c e f) = false := rfl
      simp only [delTop, List.filter_cons, hb, Bool.not_false, ↓reduceIte, lookupTop]
      exact ih
    | comment a =>
      have hb : Node.isAssignKey k (Node.comment a) = false := rfl
      simp only [delTop, List.filter_cons, hb, Bool.not_false, ↓reduceIte, lookupTop]
      exact ih

end Octave
