/-
`prune*` distribute over append; placing Absent at a site and removing the site prune to the same thing.
-/
import Octave.Spec.Prune
namespace Octave

theorem pruneItems_append (a b : List Val) : pruneItems (a ++ b) = pruneItems a ++ pruneItems b := by
  induction a with
  | nil => rfl
  | cons v rest ih => cases v <;> simp [pruneItems, ih]

theorem prunePairs_append (a b : List (Str × Val)) : prunePairs (a ++ b) = prunePairs a ++ prunePairs b := by
  induction a with
  | nil => rfl
  | cons p rest ih => obtain ⟨k, v⟩ := p; cases v <;> simp [prunePairs, ih]

theorem pruneMeta_append (a b : List (Str × Val)) : pruneMeta (a ++ b) = pruneMeta a ++ pruneMeta b := by
  induction a with
  | nil => rfl
  | cons p rest ih => obtain ⟨k, v⟩ := p; cases v <;> simp [pruneMeta, ih]

theorem pruneNodes_append (a b : List Node) : pruneNodes (a ++ b) = pruneNodes a ++ pruneNodes b := by
  induction a with
  | nil => rfl
  | cons n rest ih =>
    cases n with
    | assign lead key v trail => cases v <;> simp [pruneNodes, ih]
    | _ => simp [pruneNodes, ih]

theorem pruneItems_site (pre post : List Val) : pruneItems (pre ++ .absent :: post) = pruneItems (pre ++ post) := by
  simp [pruneItems_append, pruneItems]

theorem prunePairs_site (pre post : List (Str × Val)) (k : Str) :
    prunePairs (pre ++ (k, .absent) :: post) = prunePairs (pre ++ post) := by
  simp [prunePairs_append, prunePairs]

theorem pruneMeta_site (pre post : List (Str × Val)) (k : Str) :
    pruneMeta (pre ++ (k, .absent) :: post) = pruneMeta (pre ++ post) := by
  simp [pruneMeta_append, pruneMeta]

theorem pruneMeta_nested_site (pre post p1 p2 : List (Str × Val)) (k j : Str) :
    pruneMeta (pre ++ (k, .dict (p1 ++ (j, .absent) :: p2)) :: post) = pruneMeta (pre ++ (k, .dict (p1 ++ p2)) :: post) := by
  simp [pruneMeta_append, pruneMeta, prunePairs_site]

theorem pruneNodes_site (pre post : List Node) (lead : List Str) (k : Str) (trail : Option Str) :
    pruneNodes (pre ++ .assign lead k .absent trail :: post) = pruneNodes (pre ++ post) := by
  simp [pruneNodes_append, pruneNodes]

end Octave
