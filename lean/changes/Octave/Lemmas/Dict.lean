/-
Lemmas about the association-list model of Python `dict` (`dictSet`, `dictDel`, `dictGet`).
-/
import Octave.Model.Doc
namespace Octave
variable {α : Type}

theorem dictGet_dictSet_self (d : List (Str × α)) (k : Str) (v : α) : dictGet (dictSet d k v) k = some v := by
  induction d with
  | nil => simp [dictSet, dictGet]
  | cons p rest ih =>
    obtain ⟨k', v'⟩ := p
    by_cases h : k' = k
    · simp [dictSet, dictGet, h]
    · simp [dictSet, dictGet, h, ih]

theorem dictGet_dictSet_ne (d : List (Str × α)) (k j : Str) (v : α) (hj : j ≠ k) :
    dictGet (dictSet d k v) j = dictGet d j := by
  induction d with
  | nil => simp [dictSet, dictGet, Ne.symm hj]
  | cons p rest ih =>
    obtain ⟨k', v'⟩ := p
    by_cases h : k' = k
    · subst h
      simp [dictSet, dictGet, Ne.symm hj]
    · by_cases h2 : k' = j
      · subst h2
        simp [dictSet, dictGet, h]
      · simp [dictSet, dictGet, h, h2, ih]

theorem dictGet_dictDel_self (d : List (Str × α)) (k : Str) : dictGet (dictDel d k) k = none := by
  induction d with
  | nil => simp [dictDel, dictGet]
  | cons p rest ih =>
    obtain ⟨k', v'⟩ := p
    by_cases h : k' = k
    · simpa [dictDel, h] using ih
    · have : (k' == k) = false := by simpa using h
      simp only [dictDel, List.filter_cons, this, Bool.not_false, ↓reduceIte, dictGet, h]
      simpa [dictDel] using ih

theorem dictGet_dictDel_ne (d : List (Str × α)) (k j : Str) (hj : j ≠ k) : dictGet (dictDel d k) j = dictGet d j := by
  induction d with
  | nil => simp [dictDel, dictGet]
  | cons p rest ih =>
    obtain ⟨k', v'⟩ := p
    by_cases h : k' = k
    · subst h
      have : dictGet ((k', v') :: rest) j = dictGet rest j := by simp [dictGet, Ne.symm hj]
      rw [this, ← ih]
      simp [dictDel]
    · have hb : (k' == k) = false := by simpa using h
      simp only [dictDel, List.filter_cons, hb, Bool.not_false, ↓reduceIte, dictGet]
      by_cases h2 : k' = j
      · simp [h2]
      · simp only [h2, ↓reduceIte]
        simpa [dictDel] using ih

/-- frame: entries whose key is not named are untouched and keep their relative order. -/
theorem dictSet_filter_unnamed (named : Str → Bool) (d : List (Str × α)) (k : Str) (v : α) (hk : named k = true) :
    (dictSet d k v).filter (fun p => !named p.1) = d.filter (fun p => !named p.1) := by
  induction d with
  | nil => simp [dictSet, hk]
  | cons p rest ih =>
    obtain ⟨k', v'⟩ := p
    by_cases h : k' = k
    · subst h
      simp [dictSet, hk]
    · simp [dictSet, h, List.filter_cons, ih]

theorem dictDel_filter_unnamed (named : Str → Bool) (d : List (Str × α)) (k : Str) (hk : named k = true) :
    (dictDel d k).filter (fun p => !named p.1) = d.filter (fun p => !named p.1) := by
  induction d with
  | nil => simp [dictDel]
  | cons p rest ih =>
    obtain ⟨k', v'⟩ := p
    by_cases h : k' = k
    · subst h
      simpa [dictDel, hk] using ih
    · have hb : (k' == k) = false := by simpa using h
      simp only [dictDel, List.filter_cons, hb, Bool.not_false, ↓reduceIte]
      split <;> simpa [dictDel] using ih

/-- positions: an existing key keeps its place, a new key goes to the end. -/
theorem dictKeys_dictSet (d : List (Str × α)) (k : Str) (v : α) :
    dictKeys (dictSet d k v) = if k ∈ dictKeys d then dictKeys d else dictKeys d ++ [k] := by
  induction d with
  | nil => simp [dictSet, dictKeys]
  | cons p rest ih =>
    obtain ⟨k', v'⟩ := p
    by_cases h : k' = k
    · subst h
      simp [dictSet, dictKeys]
    · have hne : ¬ k = k' := fun e => h e.symm
      simp only [dictKeys] at ih
      simp only [dictSet, h, ↓reduceIte, dictKeys, List.map_cons, List.mem_cons, hne, false_or, ih]
      split <;> simp_all

/-- `dictDel` only removes: the surviving keys are the old keys without `k`, in the old order. -/
theorem dictKeys_dictDel (d : List (Str × α)) (k : Str) :
    dictKeys (dictDel d k) = (dictKeys d).filter (fun j => !(j == k)) := by
  simp [dictKeys, dictDel, List.filter_map, Function.comp_def]

end Octave
