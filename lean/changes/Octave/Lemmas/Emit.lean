/-
Lemmas about the emitter model: emission commutes with pruning of Absent sites, the lines of a node
list are the concatenation of the per-node line blocks, and the environment is never consulted on Absent.
-/
import Octave.Model.Emit
import Octave.Spec.Prune
namespace Octave

theorem pruneVal_isAbsent (v : Val) : (pruneVal v).isAbsent = v.isAbsent := by
  cases v <;> simp [pruneVal, Val.isAbsent]

theorem anyPresent_prune (pairs : List (Str × Val)) : anyPresent (prunePairs pairs) = anyPresent pairs := by
  induction pairs with
  | nil => rfl
  | cons p rest ih =>
    obtain ⟨k, v⟩ := p
    cases v <;> simp_all [prunePairs, anyPresent, pruneVal_isAbsent] <;> simp [Val.isAbsent]

theorem needsMultilineFrom_prune (E : Env) (items : List Val) (n : Nat) :
    needsMultilineFrom E (pruneItems items) n = needsMultilineFrom E items n := by
  induction items generalizing n with
  | nil => rfl
  | cons v rest ih =>
    cases v <;> simp [pruneItems, needsMultilineFrom, ih, pruneVal, anyPresent_prune]

theorem forceQuote_prune (E : Env) (k x : Str) (v : Val) : forceQuote E k x (pruneVal v) = forceQuote E k x v := by
  cases v <;> simp [pruneVal, forceQuote]

mutual
theorem emitValue_prune (E : Env) : ∀ (v : Val) (ind : Nat), emitValue E (pruneVal v) ind = emitValue E v ind
  | .list items, ind => by
    have h1 := slParts_prune E items ind
    have h2 := mlParts_prune E items (ind + 1)
    have h3 : needsMultiline E (pruneItems items) = needsMultiline E items := needsMultilineFrom_prune E items 0
    simp only [pruneVal, emitValue, h1, h2, h3]
    by_cases he : items.isEmpty = true
    · have : items = [] := by simpa using he
      subst this
      simp [pruneItems]
    · by_cases hp : (pruneItems items).isEmpty = true
      · have hp' : pruneItems items = [] := by simpa using hp
        have hm : needsMultiline E items = false := by
          rw [← h3, hp']; simp [needsMultiline, needsMultilineFrom]
        have hs : slParts E items ind = [] := by
          rw [← h1, hp']; simp [slParts]
        simp [he, hp, hm, hs, joinWith]
      · simp [he, hp]
  | .map pairs, ind => by
    simp only [pruneVal, emitValue, pairParts_prune E pairs ind]
  | .dict _, _ => rfl
  | .absent, _ => rfl
  | .null, _ => rfl
  | .bool _, _ => rfl
  | .int _, _ => rfl
  | .str _, _ => rfl
  | .opaque _, _ => rfl
  | .zone _ _ _, _ => rfl
  | .py _, _ => rfl
theorem slParts_prune (E : Env) : ∀ (items : List Val) (ind : Nat), slParts E (pruneItems items) ind = slParts E items ind
  | [], _ => rfl
  | v :: rest, ind => by
    have ih := slParts_prune E rest ind
    have hv := emitValue_prune E v ind
    cases v <;> simp_all [pruneItems, slParts, pruneVal, anyPresent_prune, pairParts_prune E _ ind, emitValue]
theorem mlParts_prune (E : Env) : ∀ (items : List Val) (ind : Nat), mlParts E (pruneItems items) ind = mlParts E items ind
  | [], _ => rfl
  | v :: rest, ind => by
    have ih := mlParts_prune E rest ind
    have hv := emitValue_prune E v ind
    cases v <;> simp_all [pruneItems, mlParts, pruneVal, pairParts_prune E _ ind, emitValue]
theorem pairParts_prune (E : Env) : ∀ (pairs : List (Str × Val)) (ind : Nat), pairParts E (prunePairs pairs) ind = pairParts E pairs ind
  | [], _ => rfl
  | (k, v) :: rest, ind => by
    have ih := pairParts_prune E rest ind
    have hv := emitValue_prune E v ind
    cases v <;> simp_all [prunePairs, pairParts, pruneVal, forceQuote, emitValue]
end



/-! ### nodes -/

theorem emitNodes_append (E : Env) (p : Parent) (a b : List Node) (ind : Nat) :
    emitNodes E p (a ++ b) ind = emitNodes E p a ind ++ emitNodes E p b ind := by
  induction a with
  | nil => simp [emitNodes]
  | cons n rest ih => simp [emitNodes, ih]

/-- the lines of a node list are the concatenation of the per-node line blocks, in order. -/
theorem emitNodes_eq_flatMap (E : Env) (p : Parent) (ns : List Node) (ind : Nat) :
    emitNodes E p ns ind = ns.flatMap (fun n => emitNode E p n ind) := by
  induction ns with
  | nil => simp [emitNodes]
  | cons n rest ih => simp [emitNodes, ih]

theorem emitAssign_prune (E : Env) (lead : List Str) (key : Str) (v : Val) (trail : Option Str) (ind : Nat) :
    emitAssign E lead key (pruneVal v) trail ind = emitAssign E lead key v trail ind := by
  have hv := emitValue_prune E v ind
  cases v with
  | list items => simp only [pruneVal] at hv ⊢; simp only [emitAssign, forceQuote, hv]
  | map pairs => simp only [pruneVal] at hv ⊢; simp only [emitAssign, forceQuote, hv]
  | _ => simp only [pruneVal]

mutual
theorem emitNode_prune (E : Env) (p : Parent) : ∀ (n : Node) (ind : Nat), emitNode E p (pruneNode n) ind = emitNode E p n ind
  | .assign lead key v trail, ind => by
    have h := emitAssign_prune E lead key v trail ind
    cases v <;> simp_all [pruneNode, emitNode, pruneVal]
  | .block lead key target children, ind => by
    simp only [pruneNode, emitNode, emitNodes_prune E .block children (ind + 1)]
  | .sect lead id key ann children, ind => by
    simp only [pruneNode, emitNode, emitNodes_prune E .sect children (ind + 1)]
  | .comment _, _ => rfl
theorem emitNodes_prune (E : Env) (p : Parent) : ∀ (ns : List Node) (ind : Nat), emitNodes E p (pruneNodes ns) ind = emitNodes E p ns ind
  | [], _ => rfl
  | n :: rest, ind => by
    have ih := emitNodes_prune E p rest ind
    have hn := emitNode_prune E p n ind
    cases n with
    | assign lead key v trail =>
      cases v <;> simp_all [pruneNodes, emitNodes, emitNode]
    | block _ _ _ _ => simp_all [pruneNodes, emitNodes]
    | sect _ _ _ _ _ => simp_all [pruneNodes, emitNodes]
    | comment _ => simp_all [pruneNodes, emitNodes]
end

/-! ### META -/

theorem nestedMetaLines_prune (E : Env) (pairs : List (Str × Val)) :
    nestedMetaLines E (prunePairs pairs) = nestedMetaLines E pairs := by
  induction pairs with
  | nil => rfl
  | cons p rest ih =>
    obtain ⟨k, v⟩ := p
    have hv := emitValue_prune E v 2
    cases v <;> simp_all [prunePairs, nestedMetaLines, pruneVal]

theorem metaLines_prune (E : Env) (m : List (Str × Val)) : metaLines E (pruneMeta m) = metaLines E m := by
  induction m with
  | nil => rfl
  | cons p rest ih =>
    obtain ⟨k, v⟩ := p
    have hv := emitValue_prune E v 1
    cases v <;> simp_all [pruneMeta, metaLines, pruneVal, nestedMetaLines_prune]

theorem metaBlock_prune (E : Env) (m : List (Str × Val)) : metaBlock E (pruneMeta m) = metaBlock E m := by
  unfold metaBlock
  rw [metaLines_prune]
  by_cases hm : m.isEmpty = true
  · have : m = [] := by simpa using hm
    subst this
    simp [pruneMeta]
  · by_cases hp : (pruneMeta m).isEmpty = true
    · have hp' : pruneMeta m = [] := by simpa using hp
      have hl : metaLines E m = [] := by rw [← metaLines_prune, hp']; rfl
      simp [hm, hp, hl]
    · simp [hm, hp]

/-! ### the environment is never consulted on Absent

Python's `emit_value` raises `ValueError` when it is handed `Absent`; the model calls `E.scalar` there.
Two environments that agree everywhere except on `Absent` give the same lines for every document:
no emission site lets Absent through. -/

structure EnvAgree (E E' : Env) : Prop where
  scalar : ∀ v, Val.isAbsent v = false → E.scalar v = E'.scalar v
  quoted : E.quoted = E'.quoted
  isAnnotation : E.isAnnotation = E'.isAnnotation
  alwaysQuote : E.alwaysQuote = E'.alwaysQuote

theorem needsMultilineFrom_env {E E' : Env} (h : EnvAgree E E') (items : List Val) (n : Nat) :
    needsMultilineFrom E items n = needsMultilineFrom E' items n := by
  induction items generalizing n with
  | nil => rfl
  | cons v rest ih => cases v <;> simp [needsMultilineFrom, ih, h.isAnnotation]

theorem forceQuote_env {E E' : Env} (h : EnvAgree E E') (k x : Str) (v : Val) :
    forceQuote E k x v = forceQuote E' k x v := by
  cases v <;> simp [forceQuote, h.quoted, h.alwaysQuote]

mutual
theorem emitValue_env {E E' : Env} (h : EnvAgree E E') : ∀ (v : Val) (ind : Nat), v.isAbsent = false → emitValue E v ind = emitValue E' v ind
  | .list items, ind, _ => by
    have h3 : needsMultiline E items = needsMultiline E' items := needsMultilineFrom_env h items 0
    simp only [emitValue, slParts_env h items ind, mlParts_env h items (ind + 1), h3]
  | .map pairs, ind, _ => by simp only [emitValue, pairParts_env h pairs ind]
  | .absent, _, ha => by simp [Val.isAbsent] at ha
  | .null, _, _ => h.scalar _ rfl
  | .bool _, _, _ => h.scalar _ rfl
  | .int _, _, _ => h.scalar _ rfl
  | .str _, _, _ => h.scalar _ rfl
  | .opaque _, _, _ => h.scalar _ rfl
  | .zone _ _ _, _, _ => h.scalar _ rfl
  | .dict _, _, _ => h.scalar _ rfl
  | .py _, _, _ => h.scalar _ rfl
theorem slParts_env {E E' : Env} (h : EnvAgree E E') : ∀ (items : List Val) (ind : Nat), slParts E items ind = slParts E' items ind
  | [], _ => rfl
  | v :: rest, ind => by
    have ih := slParts_env h rest ind
    cases v with
    | absent => simpa [slParts] using ih
    | map pairs =>
      have hp := pairParts_env h pairs ind
      simp [slParts, ih, hp]
    | null =>
      have hv := emitValue_env h .null ind rfl
      simp [slParts, ih, hv]
    | bool b =>
      have hv := emitValue_env h (.bool b) ind rfl
      simp [slParts, ih, hv]
    | int i =>
      have hv := emitValue_env h (.int i) ind rfl
      simp [slParts, ih, hv]
    | str s =>
      have hv := emitValue_env h (.str s) ind rfl
      simp [slParts, ih, hv]
    | «opaque» t =>
      have hv := emitValue_env h (.opaque t) ind rfl
      simp [slParts, ih, hv]
    | zone a b c =>
      have hv := emitValue_env h (.zone a b c) ind rfl
      simp [slParts, ih, hv]
    | list items =>
      have hv := emitValue_env h (.list items) ind rfl
      simp [slParts, ih, hv]
    | dict ps =>
      have hv := emitValue_env h (.dict ps) ind rfl
      simp [slParts, ih, hv]
    | py j =>
      have hv := emitValue_env h (.py j) ind rfl
      simp [slParts, ih, hv]
theorem mlParts_env {E E' : Env} (h : EnvAgree E E') : ∀ (items : List Val) (ind : Nat), mlParts E items ind = mlParts E' items ind
  | [], _ => rfl
  | v :: rest, ind => by
    have ih := mlParts_env h rest ind
    cases v with
    | absent => simpa [mlParts] using ih
    | map pairs =>
      have hp := pairParts_env h pairs ind
      simp [mlParts, ih, hp]
    | null =>
      have hv := emitValue_env h .null ind rfl
      simp [mlParts, ih, hv]
    | bool b =>
      have hv := emitValue_env h (.bool b) ind rfl
      simp [mlParts, ih, hv]
    | int i =>
      have hv := emitValue_env h (.int i) ind rfl
      simp [mlParts, ih, hv]
    | str s =>
      have hv := emitValue_env h (.str s) ind rfl
      simp [mlParts, ih, hv]
    | «opaque» t =>
      have hv := emitValue_env h (.opaque t) ind rfl
      simp [mlParts, ih, hv]
    | zone a b c =>
      have hv := emitValue_env h (.zone a b c) ind rfl
      simp [mlParts, ih, hv]
    | list items =>
      have hv := emitValue_env h (.list items) ind rfl
      simp [mlParts, ih, hv]
    | dict ps =>
      have hv := emitValue_env h (.dict ps) ind rfl
      simp [mlParts, ih, hv]
    | py j =>
      have hv := emitValue_env h (.py j) ind rfl
      simp [mlParts, ih, hv]
theorem pairParts_env {E E' : Env} (h : EnvAgree E E') : ∀ (pairs : List (Str × Val)) (ind : Nat), pairParts E pairs ind = pairParts E' pairs ind
  | [], _ => rfl
  | (k, v) :: rest, ind => by
    have ih := pairParts_env h rest ind
    cases v with
    | absent => simpa [pairParts] using ih
    | null =>
      have hv := emitValue_env h .null ind rfl
      simp [pairParts, ih, hv, forceQuote_env h]
    | bool b =>
      have hv := emitValue_env h (.bool b) ind rfl
      simp [pairParts, ih, hv, forceQuote_env h]
    | int i =>
      have hv := emitValue_env h (.int i) ind rfl
      simp [pairParts, ih, hv, forceQuote_env h]
    | str s =>
      have hv := emitValue_env h (.str s) ind rfl
      simp [pairParts, ih, hv, forceQuote_env h]
    | «opaque» t =>
      have hv := emitValue_env h (.opaque t) ind rfl
      simp [pairParts, ih, hv, forceQuote_env h]
    | zone a b c =>
      have hv := emitValue_env h (.zone a b c) ind rfl
      simp [pairParts, ih, hv, forceQuote_env h]
    | list items =>
      have hv := emitValue_env h (.list items) ind rfl
      simp [pairParts, ih, hv, forceQuote_env h]
    | dict ps =>
      have hv := emitValue_env h (.dict ps) ind rfl
      simp [pairParts, ih, hv, forceQuote_env h]
    | py j =>
      have hv := emitValue_env h (.py j) ind rfl
      simp [pairParts, ih, hv, forceQuote_env h]
    | map ps =>
      have hv := emitValue_env h (.map ps) ind rfl
      simp [pairParts, ih, hv, forceQuote_env h]
end

theorem emitAssign_env {E E' : Env} (h : EnvAgree E E') (lead : List Str) (key : Str) (v : Val) (trail : Option Str) (ind : Nat)
    (hv : v.isAbsent = false) : emitAssign E lead key v trail ind = emitAssign E' lead key v trail ind := by
  have he := emitValue_env h v ind hv
  have hf := forceQuote_env h key (emitValue E' v ind) v
  cases v <;> simp_all [emitAssign]

mutual
theorem emitNode_env {E E' : Env} (h : EnvAgree E E') (p : Parent) : ∀ (n : Node) (ind : Nat), emitNode E p n ind = emitNode E' p n ind
  | .assign lead key v trail, ind => by
    by_cases ha : v.isAbsent = true
    · have : v = .absent := by cases v <;> simp_all [Val.isAbsent]
      subst this
      rfl
    · have he := emitAssign_env h lead key v trail ind (by simpa using ha)
      cases v <;> simp_all [emitNode]
  | .block lead key target children, ind => by simp only [emitNode, emitNodes_env h .block children (ind + 1)]
  | .sect lead id key ann children, ind => by simp only [emitNode, emitNodes_env h .sect children (ind + 1)]
  | .comment _, _ => rfl
theorem emitNodes_env {E E' : Env} (h : EnvAgree E E') (p : Parent) : ∀ (ns : List Node) (ind : Nat), emitNodes E p ns ind = emitNodes E' p ns ind
  | [], _ => rfl
  | n :: rest, ind => by simp only [emitNodes, emitNode_env h p n ind, emitNodes_env h p rest ind]
end

theorem nestedMetaLines_env {E E' : Env} (h : EnvAgree E E') (pairs : List (Str × Val)) :
    nestedMetaLines E pairs = nestedMetaLines E' pairs := by
  induction pairs with
  | nil => rfl
  | cons p rest ih =>
    obtain ⟨k, v⟩ := p
    by_cases ha : v.isAbsent = true
    · have : v = .absent := by cases v <;> simp_all [Val.isAbsent]
      subst this
      simpa [nestedMetaLines] using ih
    · have hv := emitValue_env h v 2 (by simpa using ha)
      cases v <;> simp_all [nestedMetaLines]

theorem metaLines_env {E E' : Env} (h : EnvAgree E E') (m : List (Str × Val)) : metaLines E m = metaLines E' m := by
  induction m with
  | nil => rfl
  | cons p rest ih =>
    obtain ⟨k, v⟩ := p
    by_cases ha : v.isAbsent = true
    · have : v = .absent := by cases v <;> simp_all [Val.isAbsent]
      subst this
      simpa [metaLines] using ih
    · have hv := emitValue_env h v 1 (by simpa using ha)
      have hn := nestedMetaLines_env h
      cases v <;> simp_all [metaLines]

end Octave
