/-
Line-block model of `octave_mcp/core/emitter.py` with `format_options=None`
(`emit`, `emit_meta`, `emit_section`, `emit_block`, `emit_assignment`, `emit_value`,
`_needs_multiline`, `_emit_multiline_list`, `_force_quote_inline_map_value`, comments).

What is transcribed: the *structure* — which lines are produced for which node, in which order, and
exactly where `is_absent` filters.  What is a parameter (`Env`): the rendering of a non-container value
(`null`, booleans, numbers, strings with their quoting/escaping, holographic patterns, floats), the forced
quoting of PATTERN/REGEX values, and the two string predicates the structure consults.  The text engine
owns those.

A "line block" is a `List Str`; the text is `"\n".join(blocks) + "\n"`.  Python builds the same text by
joining the lines of a block / section first and appending the result as one element of the parent's
list; since none of those inner lists is ever empty the two constructions give the same text, and the
correspondence check compares the final text with the real `emit`.
-/
import Octave.Model.Doc
import Octave.Gen.AbsentSites
namespace Octave

structure Env where
  /-- `emit_value(v)` for a value that is neither `ListValue` nor `InlineMap`. -/
  scalar : Val → Str
  /-- `'"' + escaped(s) + '"'`. -/
  quoted : Str → Str
  /-- `ANNOTATION_PATTERN.match(s)`. -/
  isAnnotation : Str → Bool
  /-- `key in _ALWAYS_QUOTE_KEYS`. -/
  alwaysQuote : Str → Bool

def Val.isAbsent : Val → Bool
  | .absent => true
  | _ => false

/-- `"  " * n`. -/
def indentStr (n : Nat) : Str := List.replicate (2 * n) ' '

/-- `any(not is_absent(v) for v in item.pairs.values())`. -/
def anyPresent (pairs : List (Str × Val)) : Bool := pairs.any (fun p => !p.2.isAbsent)

/-- `_needs_multiline(value)` with the running count of plain items. -/
def needsMultilineFrom (E : Env) : List Val → Nat → Bool
  | [], n => decide (3 ≤ n)
  | item :: rest, n =>
    match item with
    | .absent => needsMultilineFrom E rest n
    | .map pairs => if anyPresent pairs then true else needsMultilineFrom E rest n
    | .list _ => true
    | .str s => if E.isAnnotation s then true else needsMultilineFrom E rest (n + 1)
    | _ => needsMultilineFrom E rest (n + 1)

def needsMultiline (E : Env) (items : List Val) : Bool := needsMultilineFrom E items 0

/-- `_force_quote_inline_map_value(key, value_str, raw_value)` (same test inside `emit_assignment`). -/
def forceQuote (E : Env) (key : Str) (valueStr : Str) (raw : Val) : Str :=
  match raw with
  | .str s => if E.alwaysQuote key && !(valueStr.head? == some '"') then E.quoted s else valueStr
  | _ => valueStr

/-- items with a trailing comma on all but the last, each prefixed by the child indent. -/
def withCommas (pre : Str) : List Str → List Str
  | [] => []
  | [p] => [pre ++ p]
  | p :: q :: r => (pre ++ p ++ [',']) :: withCommas pre (q :: r)

/-- the tail of `_emit_multiline_list` once `parts` is known. -/
def multilineText (parts : List Str) (ind : Nat) : Str :=
  if parts.isEmpty then ['[', ']']
  else joinWith ['\n'] ([['[']] ++ withCommas (indentStr (ind + 1)) parts ++ [indentStr ind ++ [']']])

mutual
/-- `emit_value(value, indent)`. -/
def emitValue (E : Env) : Val → Nat → Str
  | .list items, ind =>
    if items.isEmpty then ['[', ']']
    else if needsMultiline E items then multilineText (mlParts E items (ind + 1)) ind
    else ['['] ++ joinWith [','] (slParts E items ind) ++ [']']
  | .map pairs, ind => ['['] ++ joinWith [','] (pairParts E pairs ind) ++ [']']
  | v, _ => E.scalar v      -- for `absent` Python raises ValueError: `C18_absent_never_rendered` shows it is never reached
/-- the `parts` of the single-line path of `emit_value` for a `ListValue`. -/
def slParts (E : Env) : List Val → Nat → List Str
  | [], _ => []
  | item :: rest, ind =>
    match item with
    | .absent => slParts E rest ind
    | .map pairs =>
      if anyPresent pairs then (['['] ++ joinWith [','] (pairParts E pairs ind) ++ [']']) :: slParts E rest ind
      else slParts E rest ind
    | v => emitValue E v ind :: slParts E rest ind
/-- the `parts` of `_emit_multiline_list` (`ind` is already `indent + 1`). -/
def mlParts (E : Env) : List Val → Nat → List Str
  | [], _ => []
  | item :: rest, ind =>
    match item with
    | .absent => mlParts E rest ind
    | .map pairs =>
      let ps := pairParts E pairs ind
      if ps.isEmpty then mlParts E rest ind else joinWith [','] ps :: mlParts E rest ind
    | v => emitValue E v ind :: mlParts E rest ind
/-- `k::v` strings of an inline map, Absent values filtered. -/
def pairParts (E : Env) : List (Str × Val) → Nat → List Str
  | [], _ => []
  | (k, v) :: rest, ind =>
    match v with
    | .absent => pairParts E rest ind
    | v => (k ++ [':', ':'] ++ forceQuote E k (emitValue E v ind) v) :: pairParts E rest ind
end

/-- `_emit_leading_comments(comments, indent)`. -/
def leadLines (comments : List Str) (ind : Nat) : List Str :=
  comments.map (fun c => indentStr ind ++ ['/', '/', ' '] ++ c)

/-- `_emit_trailing_comment(comment)`: nothing for `None` and for `""`. -/
def trailStr : Option Str → Str
  | some (c :: cs) => [' ', '/', '/', ' '] ++ (c :: cs)
  | _ => []

/-- fence lines of a literal zone (`info` is `[]` when `info_tag` is falsy; content verbatim, one chunk). -/
def zoneLines (ind : Nat) (fence info content : Str) : List Str :=
  [indentStr ind ++ fence ++ info] ++ (if content.isEmpty then [] else [content]) ++ [indentStr ind ++ fence]

/-- `emit_assignment(assignment, indent)` as its list of lines (never called with an Absent value). -/
def emitAssign (E : Env) (lead : List Str) (key : Str) (v : Val) (trail : Option Str) (ind : Nat) : List Str :=
  leadLines lead ind ++
  match v with
  | .zone fence info content => (indentStr ind ++ key ++ [':', ':']) :: zoneLines ind fence info content
  | v => [indentStr ind ++ key ++ [':', ':'] ++ forceQuote E key (emitValue E v ind) v ++ trailStr trail]

/-- who iterates over the children: `emit` (top level), `emit_block`, `emit_section`. -/
inductive Parent where
  | top | block | sect
  deriving DecidableEq, Repr

def optBracket (pre : Str) : Option Str → Str
  | some (c :: cs) => ['['] ++ pre ++ (c :: cs) ++ [']']
  | _ => []

mutual
/-- the lines one child contributes inside the loop of `emit` / `emit_block` / `emit_section`. -/
def emitNode (E : Env) (p : Parent) : Node → Nat → List Str
  | .assign lead key v trail, ind =>
    match v with
    | .absent => []                                        -- `if is_absent(child.value): continue`
    | .zone fence info content =>
      if p = .block ∧ key = [] then zoneLines ind fence info content     -- bare-key literal zone child of a block
      else emitAssign E lead key (.zone fence info content) trail ind
    | v => emitAssign E lead key v trail ind
  | .block lead key target children, ind =>
    leadLines lead ind ++ [indentStr ind ++ key ++ optBracket ['→', '§'] target ++ [':']]
      ++ emitNodes E .block children (ind + 1)
  | .sect lead id key ann children, ind =>
    leadLines lead ind ++ [indentStr ind ++ ['§'] ++ id ++ [':', ':'] ++ key ++ optBracket [] ann]
      ++ emitNodes E .sect children (ind + 1)
  | .comment text, ind =>
    if p = .top then [] else [indentStr ind ++ ['/', '/', ' '] ++ text]   -- `emit` has no Comment branch
def emitNodes (E : Env) (p : Parent) : List Node → Nat → List Str
  | [], _ => []
  | n :: ns, ind => emitNode E p n ind ++ emitNodes E p ns ind
end

/-- nested lines of a `dict` value inside META. -/
def nestedMetaLines (E : Env) : List (Str × Val) → List Str
  | [] => []
  | (k, v) :: rest =>
    match v with
    | .absent => nestedMetaLines E rest
    | v => ([' ', ' ', ' ', ' '] ++ k ++ [':', ':'] ++ emitValue E v 2) :: nestedMetaLines E rest

/-- `content_lines` of `emit_meta`. -/
def metaLines (E : Env) : List (Str × Val) → List Str
  | [] => []
  | (k, v) :: rest =>
    match v with
    | .absent => metaLines E rest
    | .dict pairs => ([' ', ' '] ++ k ++ [':']) :: (nestedMetaLines E pairs ++ metaLines E rest)
    | v => ([' ', ' '] ++ k ++ [':', ':'] ++ emitValue E v 1) :: metaLines E rest

/-- what `emit` appends for META: nothing for an empty dict, nothing when every value is Absent (the
text of `emit_meta` is then empty and `emit` appends it only `if meta_text:` — repo commit 7caeb79, pinned
by `gen_emit_checks_meta_text`), else `"META:"` and the content lines. -/
def metaBlock (E : Env) («meta» : List (Str × Val)) : List Str :=
  if «meta».isEmpty then []
  else
    let ls := metaLines E «meta»
    if ls.isEmpty then [] else ['M', 'E', 'T', 'A', ':'] :: ls

def envelope (d : Doc) : List Str :=
  (match d.front with
    | some f => [['-', '-', '-'], f, ['-', '-', '-'], []]
    | none => [])
  ++ (match d.grammar with
    | some g => [['O', 'C', 'T', 'A', 'V', 'E', ':', ':'] ++ g]
    | none => [])
  ++ [['=', '=', '='] ++ d.name ++ ['=', '=', '=']]

def endLine : Str := ['=', '=', '=', 'E', 'N', 'D', '=', '=', '=']

/-- the `lines` list of `emit(doc)` (inner joins flattened). -/
def emitLines (E : Env) (d : Doc) : List Str :=
  envelope d ++ metaBlock E d.«meta» ++ (if d.sep then [['-', '-', '-']] else [])
    ++ emitNodes E .top d.nodes 0 ++ leadLines d.trailing 0 ++ [endLine]

/-- `emit(doc)`. -/
def emitText (E : Env) (d : Doc) : Str := joinWith ['\n'] (emitLines E d) ++ ['\n']

end Octave
