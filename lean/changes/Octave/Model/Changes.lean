/-
Executable model of the change application of `octave_mcp/mcp/write.py`
(`_is_delete_sentinel`, `_normalize_value_for_ast`, `WriteTool._apply_changes`,
`WriteTool._apply_mutations`); the CLI `octave write --changes` goes through the same `_apply_changes`.
Transcription of the code that exists.  Constants come from the regenerated `Gen/ChangeConsts`.
-/
import Octave.Model.Doc
import Octave.Gen.ChangeConsts
namespace Octave

/-- `_is_delete_sentinel(value)`: `isinstance(value, dict) and value.get("$op") == "DELETE"`.
(Any other entries of the dict are ignored; only a `str` equals `"DELETE"`.) -/
def isDel : JVal → Bool
  | .obj pairs =>
    match dictGet pairs Gen.deleteOpKey with
    | some (.str s) => s == Gen.deleteOpVal
    | _ => false
  | _ => false

mutual
/-- `_normalize_value_for_ast(value)`: list → ListValue (items normalised), dict → InlineMap (values
normalised), everything else unchanged.  A DELETE sentinel *inside* a value is an ordinary dict. -/
def normalize : JVal → Val
  | .null => .null
  | .bool b => .bool b
  | .int i => .int i
  | .str s => .str s
  | .opaque t => .opaque t
  | .list items => .list (normalizeList items)
  | .obj pairs => .map (dictOfPairs (normalizePairs pairs))
def normalizeList : List JVal → List Val
  | [] => []
  | x :: xs => normalize x :: normalizeList xs
def normalizePairs : List (Str × JVal) → List (Str × Val)
  | [] => []
  | (k, v) :: ps => (k, normalize v) :: normalizePairs ps
end

/-- How `_apply_changes` reads a request key. -/
inductive KeyKind where
  | metaField (field : Str)      -- `key.startswith("META.")`, field = `key[5:]`
  | metaWhole                    -- `key == "META"` (takes the META branch only if the value is a dict)
  | top                          -- everything else: a top-level assignment key
  deriving Repr, DecidableEq

def classify (key : Str) : KeyKind :=
  if Gen.metaPrefix.isPrefixOf key then .metaField (key.drop Gen.metaSliceStart)
  else if key = Gen.metaKey then .metaWhole
  else .top

def isObj : JVal → Bool
  | .obj _ => true
  | _ => false

/-- one step of `for mk, mv in new_value.items()` (also the body of `_apply_mutations`). -/
def metaStep («meta» : List (Str × Val)) (p : Str × JVal) : List (Str × Val) :=
  if isDel p.2 then dictDel «meta» p.1 else dictSet «meta» p.1 (normalize p.2)

/-- update the first `Assignment` with this key in place; `none` when there is none. -/
def setFirst (k : Str) (v : Val) : List Node → Option (List Node)
  | [] => none
  | .assign lead key old trail :: rest =>
    if key = k then some (.assign lead key v trail :: rest)
    else (setFirst k v rest).map (Node.assign lead key old trail :: ·)
  | n :: rest => (setFirst k v rest).map (n :: ·)

/-- the `else` branch: update in place, else append `Assignment(key=key, value=v)`. -/
def setTop (k : Str) (v : Val) (ns : List Node) : List Node :=
  match setFirst k v ns with
  | some ns' => ns'
  | none => ns ++ [.assign [] k v none]

/-- the DELETE branch: `[s for s in doc.sections if not (isinstance(s, Assignment) and s.key == key)]`. -/
def delTop (k : Str) (ns : List Node) : List Node :=
  ns.filter (fun n => !(Node.isAssignKey k n))

/-- body of the `for key, new_value in changes.items()` loop of `_apply_changes`. -/
def applyChange (d : Doc) (c : Str × JVal) : Doc :=
  match classify c.1 with
  | .metaField f => { d with «meta» := metaStep d.«meta» (f, c.2) }
  | .metaWhole =>
    match c.2 with
    | .obj pairs =>
      if isDel (.obj pairs) then { d with «meta» := [] }
      else { d with «meta» := pairs.foldl metaStep d.«meta» }
    | v => { d with nodes := setTop c.1 (normalize v) d.nodes }    -- `"META": 3` is an ordinary key (!)
  | .top =>
    if isDel c.2 then { d with nodes := delTop c.1 d.nodes }
    else { d with nodes := setTop c.1 (normalize c.2) d.nodes }

/-- `_apply_changes(doc, changes)`. -/
def applyChanges (d : Doc) (changes : List (Str × JVal)) : Doc := changes.foldl applyChange d

/-- `_apply_mutations(doc, mutations)` (`None` and `{}` are both "no mutations"). -/
def applyMutations (d : Doc) (mutations : List (Str × JVal)) : Doc :=
  { d with «meta» := mutations.foldl metaStep d.«meta» }

/-- one call `octave_write(target_path, changes=…, mutations=…)` seen on the AST. -/
structure Request where
  changes : List (Str × JVal) := []
  mutations : List (Str × JVal) := []
  deriving Repr, Inhabited

def applyRequest (d : Doc) (r : Request) : Doc := applyMutations (applyChanges d r.changes) r.mutations

/-- a history of calls (any length). -/
def applyRequests (d : Doc) (rs : List Request) : Doc := rs.foldl applyRequest d

/-! ### The CLI (`octave write --changes`, cli/main.py `write`)

Since repo commit 1dc8194 the CLI parses the file, calls `WriteTool()._apply_changes(doc, json.loads(changes))`
and emits: on the AST it IS `applyChanges` (no `mutations` parameter).  `Gen.cliApplyChangesCalls` /
`Gen.cliHasChangesLoop` are regenerated from cli/main.py and pinned in `Props/C18` (`gen_cli_shares_apply_changes`). -/

/-- one call `octave write FILE --changes JSON` seen on the AST. -/
def cliApply (d : Doc) (changes : List (Str × JVal)) : Doc := applyChanges d changes

end Octave
