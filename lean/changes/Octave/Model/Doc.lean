/-
Documents, values and requests as `octave_mcp.mcp.write._apply_changes` and
`octave_mcp.core.emitter.emit` see them.  Import-free (core Lean only).

* `Val`   : a value stored in the AST (`Assignment.value`, a `Document.meta` entry, a list item,
            an inline-map value).  `absent` is `ast_nodes.Absent`, `null` is Python `None`.
* `JVal`  : a value of a *request* (`changes=` / `mutations=` / CLI `--changes` JSON).
* `Node`  : `Assignment | Block | Section | Comment`.
* `Doc`   : `Document` (meta is a Python dict = association list, first position kept, last value wins).
-/
namespace Octave

/-- Strings are lists of code points inside the model. -/
abbrev Str := List Char

/-- `sep.join(parts)`. -/
def joinWith (sep : Str) : List Str → Str
  | [] => []
  | [x] => x
  | x :: y :: xs => x ++ sep ++ joinWith sep (y :: xs)

/-- A request value: what `json.loads` (CLI) or an MCP client can put into `changes`. -/
inductive JVal where
  | null
  | bool (b : Bool)
  | int (i : Int)
  | str (s : Str)
  | opaque (tag : Str)                    -- float and any other non-container Python object (kept as is)
  | list (items : List JVal)
  | obj (pairs : List (Str × JVal))       -- Python dict; the harness only sends unique keys
  deriving Repr, Inhabited

/-- A value inside the AST. -/
inductive Val where
  | absent                                -- ast_nodes.Absent()
  | null                                  -- None
  | bool (b : Bool)
  | int (i : Int)
  | str (s : Str)
  | opaque (tag : Str)                    -- float / HolographicValue / foreign object: rendered by the environment
  | zone (fence info content : Str)       -- LiteralZoneValue (info = [] when info_tag is falsy)
  | list (items : List Val)               -- ListValue
  | map (pairs : List (Str × Val))        -- InlineMap
  | dict (pairs : List (Str × Val))       -- raw Python dict: the one nested level of META produced by the parser
  | py (j : JVal)                         -- a raw Python list/dict object put there by an API caller: foreign, printed with str()
  deriving Repr, Inhabited

inductive Node where
  | assign (lead : List Str) (key : Str) (v : Val) (trail : Option Str)
  | block (lead : List Str) (key : Str) (target : Option Str) (children : List Node)
  | sect (lead : List Str) (id key : Str) (ann : Option Str) (children : List Node)
  | comment (text : Str)
  deriving Repr, Inhabited

structure Doc where
  front : Option Str := none       -- raw_frontmatter when it is not None and not blank
  grammar : Option Str := none     -- grammar_version when truthy
  name : Str := "INFERRED".toList
  «meta» : List (Str × Val) := []
  sep : Bool := false
  nodes : List Node := []
  trailing : List Str := []
  deriving Repr, Inhabited

/-! ### Python `dict` as an association list -/

/-- `d[k] = v`: an existing key keeps its position and takes the new value, a new key is appended. -/
def dictSet {α : Type} (d : List (Str × α)) (k : Str) (v : α) : List (Str × α) :=
  match d with
  | [] => [(k, v)]
  | (k', v') :: rest => if k' = k then (k, v) :: rest else (k', v') :: dictSet rest k v

/-- `d.pop(k, None)` / `if k in d: del d[k]`. -/
def dictDel {α : Type} (d : List (Str × α)) (k : Str) : List (Str × α) :=
  d.filter (fun p => !(p.1 == k))

/-- `d.get(k)`. -/
def dictGet {α : Type} (d : List (Str × α)) (k : Str) : Option α :=
  match d with
  | [] => none
  | (k', v') :: rest => if k' = k then some v' else dictGet rest k

def dictKeys {α : Type} (d : List (Str × α)) : List Str := d.map (·.1)

/-- `{k: v for k, v in pairs}` / `dict(pairs)`. -/
def dictOfPairs {α : Type} (ps : List (Str × α)) : List (Str × α) :=
  ps.foldl (fun d p => dictSet d p.1 p.2) []

namespace Node

/-- `isinstance(n, Assignment) and n.key == k`. -/
def isAssignKey (k : Str) : Node → Bool
  | assign _ key _ _ => key == k
  | _ => false

end Node

/-- first top-level `Assignment` with key `k`: its value. -/
def lookupTop (k : Str) : List Node → Option Val
  | [] => none
  | .assign _ key v _ :: rest => if key = k then some v else lookupTop k rest
  | _ :: rest => lookupTop k rest

def hasAssign (k : Str) (ns : List Node) : Bool := ns.any (Node.isAssignKey k)

end Octave
