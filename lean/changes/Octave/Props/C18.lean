/-
C18 — Absent, null and value stay distinct; changes touch only named keys (I2).

Property theorems and non-vacuity examples only (helpers live in Octave/Lemmas, the independent
single-request spec in Octave/Spec).  Statements are over the executable model
  Model/Changes (`_is_delete_sentinel`, `_normalize_value_for_ast`, `_apply_changes`, `_apply_mutations`, CLI loop)
  Model/Emit    (`emit`, `emit_meta`, `emit_section`, `emit_block`, `emit_assignment`, `emit_value`, …)
which the correspondence check ties to write.py / emitter.py / cli/main.py on every run.
`E : Env` is the abstract scalar renderer (owned by the text engine); every theorem holds for all `E`.
-/
import Octave.Lemmas.Emit
import Octave.Lemmas.Prune
import Octave.Lemmas.Changes
namespace Octave.C18
open Octave

/-! ## Facts about the regenerated tables (re-proved on every build) -/

/-- every `emit_value` / `emit_assignment` call of emitter.py is dominated by an `is_absent` filter on the
emitted expression, or hands the duty to callers that are in the table themselves. -/
theorem gen_sites_all_guarded : Gen.absentSites.all (fun s => s.guard != .unguarded) = true := by decide

/-- every emission site the model filters at has a filtered counterpart in the named function of the code:
document level, block child, section child, META, nested META, list item (single- and multi-line),
inline-map value (standalone and inside a multi-line list). -/
theorem gen_sites_cover :
    (["emit", "emit_block", "emit_section"].all fun f =>
        Gen.absentSites.any fun s => s.fn == f && s.callee == "emit_assignment" && s.guard == .filtered) = true
    ∧ ((Gen.absentSites.filter fun s => s.fn == "emit_meta" && s.guard == .filtered).length ≥ 2)
    ∧ ((Gen.absentSites.filter fun s => s.fn == "emit_value" && s.guard == .filtered).length ≥ 2)
    ∧ ((Gen.absentSites.filter fun s => s.fn == "_emit_multiline_list" && s.guard == .filtered).length ≥ 2)
    ∧ Gen.emitValueRaisesOnAbsent = true := by decide

/-- the DELETE sentinel the code tests for is the documented one, and equals the module constant. -/
theorem gen_delete_sentinel :
    Gen.deleteOpKey = "$op".toList ∧ Gen.deleteOpVal = "DELETE".toList
    ∧ Gen.deleteSentinelConst.map (fun p => (p.1.toList, p.2.toList)) = [(Gen.deleteOpKey, Gen.deleteOpVal)] := by decide

/-- the META dispatch constants: `META.` prefix, the slice removes exactly the prefix, `META` whole-block key. -/
theorem gen_meta_dispatch :
    Gen.metaPrefix = "META.".toList ∧ Gen.metaSliceStart = Gen.metaPrefix.length ∧ Gen.metaKey = "META".toList := by decide

/-- `_normalize_value_for_ast` dispatches on list and dict (after the literal-zone pass-through) and wraps them. -/
theorem gen_normalize_dispatch :
    Gen.normalizeDispatch = ["LiteralZoneValue", "list", "dict"] ∧ Gen.normalizeWraps = ["InlineMap", "ListValue"] := by decide

/-- the tri-state dispatch exists in both MCP paths (a dropped DELETE test / normalisation breaks this). -/
theorem gen_tristate_dispatch :
    Gen.applyChangesDeleteTests ≥ 4 ∧ Gen.applyChangesNormalizeCalls ≥ 3
    ∧ Gen.applyMutationsDeleteTests ≥ 1 ∧ Gen.applyMutationsNormalizeCalls ≥ 1 := by decide

/-- `emit` appends the META text only when it is non-empty (repo commit 7caeb79 closed F85: a META whose
values are all Absent used to leave a blank line).  A revert makes this fact — and the correspondence — fail. -/
theorem gen_emit_checks_meta_text : Gen.emitChecksMetaText = true := by decide

/-- the CLI `write --changes` has no change-application loop of its own: it calls `_apply_changes`
(repo commit 1dc8194 closed F28 / F81 / F82). -/
theorem gen_cli_shares_apply_changes :
    Gen.cliHasChangesLoop = false ∧ Gen.cliApplyChangesCalls ≥ 1 ∧ Gen.cliMetaReplacedByCopy = false := by decide

/-! ## Clause 1 — a field that is absent is never written out -/

/-- MASTER: emitting a document = emitting the document with EVERY Absent site removed (top-level,
block and section children at any depth, META entries, nested META entries, list items and inline-map
values at any depth), for every renderer. -/
theorem C18_absent_silent (E : Env) (d : Doc) : emitLines E (pruneDoc d) = emitLines E d := by
  unfold emitLines pruneDoc
  simp only [envelope, metaBlock_prune E d.«meta», emitNodes_prune E .top d.nodes 0]

theorem C18_absent_silent_text (E : Env) (d : Doc) : emitText E (pruneDoc d) = emitText E d := by
  unfold emitText; rw [C18_absent_silent E d]

/-- two documents that differ only by Absent sites (anywhere, any number) have the same text. -/
theorem C18_absent_sites_any_depth (E : Env) (d₁ d₂ : Doc) (hp : pruneDoc d₁ = pruneDoc d₂) :
    emitText E d₁ = emitText E d₂ := by
  rw [← C18_absent_silent_text E d₁, ← C18_absent_silent_text E d₂, hp]

/-- site: top-level assignment (with its leading/trailing comments). -/
theorem C18_absent_silent_top (E : Env) (d : Doc) (pre post : List Node) (lead : List Str) (k : Str) (trail : Option Str) :
    emitLines E { d with nodes := pre ++ .assign lead k .absent trail :: post } = emitLines E { d with nodes := pre ++ post } := by
  simp [emitLines, envelope, emitNodes_append, emitNodes, emitNode]

/-- site: child of a block, at whatever depth the block itself sits (`p`, `ind` arbitrary). -/
theorem C18_absent_silent_block_child (E : Env) (p : Parent) (ind : Nat) (blead : List Str) (bkey : Str) (target : Option Str)
    (pre post : List Node) (lead : List Str) (k : Str) (trail : Option Str) :
    emitNode E p (.block blead bkey target (pre ++ .assign lead k .absent trail :: post)) ind
      = emitNode E p (.block blead bkey target (pre ++ post)) ind := by
  simp [emitNode, emitNodes_append, emitNodes]

/-- site: child of a section. -/
theorem C18_absent_silent_section_child (E : Env) (p : Parent) (ind : Nat) (slead : List Str) (id skey : Str) (ann : Option Str)
    (pre post : List Node) (lead : List Str) (k : Str) (trail : Option Str) :
    emitNode E p (.sect slead id skey ann (pre ++ .assign lead k .absent trail :: post)) ind
      = emitNode E p (.sect slead id skey ann (pre ++ post)) ind := by
  simp [emitNode, emitNodes_append, emitNodes]

/-- site: list item (single-line and multi-line layouts, and the choice between them). -/
theorem C18_absent_silent_list_item (E : Env) (pre post : List Val) (ind : Nat) :
    emitValue E (.list (pre ++ .absent :: post)) ind = emitValue E (.list (pre ++ post)) ind := by
  rw [← emitValue_prune E (.list (pre ++ .absent :: post)), ← emitValue_prune E (.list (pre ++ post))]
  simp [pruneVal, pruneItems_site]

/-- site: inline-map value. -/
theorem C18_absent_silent_map_value (E : Env) (pre post : List (Str × Val)) (k : Str) (ind : Nat) :
    emitValue E (.map (pre ++ (k, .absent) :: post)) ind = emitValue E (.map (pre ++ post)) ind := by
  rw [← emitValue_prune E (.map (pre ++ (k, .absent) :: post)), ← emitValue_prune E (.map (pre ++ post))]
  simp [pruneVal, prunePairs_site]

/-- site: entry of a nested META dict. -/
theorem C18_absent_silent_nested_meta (E : Env) (pre post p1 p2 : List (Str × Val)) (k j : Str) :
    metaBlock E (pre ++ (k, .dict (p1 ++ (j, .absent) :: p2)) :: post) = metaBlock E (pre ++ (k, .dict (p1 ++ p2)) :: post) := by
  have h : metaLines E (pre ++ (k, .dict (p1 ++ (j, .absent) :: p2)) :: post) = metaLines E (pre ++ (k, .dict (p1 ++ p2)) :: post) := by
    rw [← metaLines_prune E (pre ++ (k, .dict (p1 ++ (j, .absent) :: p2)) :: post), pruneMeta_nested_site, metaLines_prune]
  simp [metaBlock, h]

/-- site: META entry — also when it is the only entry (then no META block at all, and no blank line). -/
theorem C18_absent_silent_meta (E : Env) (pre post : List (Str × Val)) (k : Str) :
    metaBlock E (pre ++ (k, .absent) :: post) = metaBlock E (pre ++ post) := by
  rw [← metaBlock_prune E (pre ++ (k, .absent) :: post), pruneMeta_site, metaBlock_prune]

/-- no emission site hands Absent to the renderer (Python would raise ValueError there): two renderers
that agree off Absent produce the same text for every document. -/
theorem C18_absent_never_rendered (E E' : Env) (h : EnvAgree E E') (d : Doc) : emitText E d = emitText E' d := by
  unfold emitText emitLines metaBlock
  rw [metaLines_env h, emitNodes_env h]

/-! ## Clause 2 — null, "" and [] stay pairwise distinct; Absent renders nothing -/

/-- what the three "empty" values render to. -/
theorem C18_tristate_values (E : Env) (ind : Nat) :
    emitValue E .null ind = E.scalar .null ∧ emitValue E (.str []) ind = E.scalar (.str []) ∧ emitValue E (.list []) ind = ['[', ']'] := by
  simp [emitValue]

/-- at any assignment site (top level / block child / section child, any indent, any comments, any key):
the line blocks of `null`, `""` and `[]` are pairwise different and non-empty, the block of Absent is empty —
given only that the renderer keeps `null`, `""` and `[]` apart and quotes the empty string. -/
theorem C18_tristate (E : Env) (p : Parent) (ind : Nat) (lead : List Str) (key : Str) (trail : Option Str)
    (h1 : E.scalar .null ≠ E.scalar (.str [])) (h2 : E.scalar .null ≠ ['[', ']']) (h3 : E.scalar (.str []) ≠ ['[', ']'])
    (hq : (E.scalar (.str [])).head? = some '"') :
    let L := fun v => emitNode E p (.assign lead key v trail) ind
    L .null ≠ L (.str []) ∧ L .null ≠ L (.list []) ∧ L (.str []) ≠ L (.list []) ∧ L .absent = []
      ∧ L .null ≠ [] ∧ L (.str []) ≠ [] ∧ L (.list []) ≠ [] := by
  have key_line : ∀ (pre : List Str) (pfx a b t : Str), a ≠ b → pre ++ [pfx ++ a ++ t] ≠ pre ++ [pfx ++ b ++ t] := by
    intro pre pfx a b t hab h
    have h' := List.append_cancel_left h
    simp only [List.cons.injEq, and_true] at h'
    exact hab (List.append_cancel_left (List.append_cancel_right h'))
  have hfq : (E.alwaysQuote key && !(some '"' == some '"')) = false := by simp
  simp only [emitNode, emitAssign, emitValue, forceQuote, hq, hfq, Bool.false_eq_true, List.isEmpty_nil, ↓reduceIte]
  refine ⟨key_line _ _ _ _ _ h1, key_line _ _ _ _ _ h2, key_line _ _ _ _ _ h3, trivial, ?_, ?_, ?_⟩ <;> simp

/-! ## Clause 3 — frame: keys not named keep their line blocks and their order -/

/-- `emit` is the concatenation of per-node line blocks: this is what "the lines of a key" means. -/
theorem C18_emit_decomposes (E : Env) (d : Doc) :
    emitLines E d = envelope d ++ metaBlock E d.«meta» ++ (if d.sep then [['-', '-', '-']] else [])
      ++ d.nodes.flatMap (fun n => emitNode E .top n 0) ++ leadLines d.trailing 0 ++ [endLine] := by
  simp [emitLines, emitNodes_eq_flatMap]

/-- FRAME (top level), histories of any length: the nodes that are not assignments with a named key are
the same nodes, in the same relative order — hence so are their line blocks. -/
theorem C18_frame (d : Doc) (rs : List Request) (named : Str → Bool)
    (h : ∀ c ∈ rs.flatMap (·.changes), ∀ k r, topEffect c = some (k, r) → named k = true) :
    (applyRequests d rs).nodes.filter (unnamedNode named) = d.nodes.filter (unnamedNode named) := by
  rw [applyRequests_nodes]
  generalize rs.flatMap (·.changes) = cs at h
  induction cs generalizing d with
  | nil => rfl
  | cons c rest ih =>
    simp only [List.foldl_cons]
    have hc := applyTopEffect_filter_unnamed named d.nodes (topEffect c) (fun k r e => h c (by simp) k r e)
    have := ih { d with nodes := applyTopEffect d.nodes (topEffect c) } (fun c' hc' => h c' (by simp [hc']))
    simp only at this
    rw [this, hc]

theorem C18_frame_lines (E : Env) (d : Doc) (rs : List Request) (named : Str → Bool)
    (h : ∀ c ∈ rs.flatMap (·.changes), ∀ k r, topEffect c = some (k, r) → named k = true) :
    ((applyRequests d rs).nodes.filter (unnamedNode named)).map (fun n => emitNode E .top n 0)
      = (d.nodes.filter (unnamedNode named)).map (fun n => emitNode E .top n 0) := by
  rw [C18_frame d rs named h]

/-- FRAME (META): entries whose field is not named keep value and relative order (a whole-META DELETE
names every field). -/
theorem C18_frame_meta (d : Doc) (rs : List Request) (named : Str → Bool)
    (h : ∀ op ∈ rs.flatMap metaOps, ∀ f, op.names f = true → named f = true) :
    (applyRequests d rs).«meta».filter (fun p => !named p.1) = d.«meta».filter (fun p => !named p.1) := by
  rw [applyRequests_meta]
  generalize rs.flatMap metaOps = ops at h
  generalize d.«meta» = m
  induction ops generalizing m with
  | nil => rfl
  | cons op rest ih =>
    simp only [List.foldl_cons]
    rw [ih (fun op' h' => h op' (by simp [h'])) (runMetaOp m op), runMetaOp_filter_unnamed named m op (h op (by simp))]

/-- the keys a list of entries names satisfy the frame hypothesis (and form the least such set). -/
theorem namesTop_spec (cs : List (Str × JVal)) :
    ∀ c ∈ cs, ∀ k r, topEffect c = some (k, r) → namesTop cs k = true := by
  intro c hc k r he
  simp only [namesTop, List.any_eq_true]
  exact ⟨c, hc, by simp [he]⟩

/-- FRAME with the exact named set — nothing to assume: every node that is not an assignment whose key
some request of the history names is the same node at the same relative position afterwards. -/
theorem C18_frame_named (d : Doc) (rs : List Request) :
    (applyRequests d rs).nodes.filter (unnamedNode (namesTop (rs.flatMap (·.changes))))
      = d.nodes.filter (unnamedNode (namesTop (rs.flatMap (·.changes)))) :=
  C18_frame d rs _ (namesTop_spec _)

theorem C18_frame_meta_named (d : Doc) (rs : List Request) :
    (applyRequests d rs).«meta».filter (fun p => !(rs.flatMap metaOps).any (fun op => op.names p.1))
      = d.«meta».filter (fun p => !(rs.flatMap metaOps).any (fun op => op.names p.1)) :=
  C18_frame_meta d rs (fun f => (rs.flatMap metaOps).any (fun op => op.names f))
    (fun op hop f hf => by simp only [List.any_eq_true]; exact ⟨op, hop, hf⟩)

/-- FRAME (envelope): name, grammar sentinel, frontmatter, separator and trailing comments never change. -/
theorem C18_frame_envelope (d : Doc) (rs : List Request) :
    envelope (applyRequests d rs) = envelope d ∧ (applyRequests d rs).sep = d.sep ∧ (applyRequests d rs).trailing = d.trailing := by
  obtain ⟨h1, h2, h3, h4, h5⟩ := applyRequests_envelope d rs
  simp [envelope, h1, h2, h3, h4, h5]

/-- omit: a request that names nothing leaves the whole document (hence the whole text) unchanged. -/
theorem C18_omit (E : Env) (d : Doc) : emitText E (applyRequest d {}) = emitText E d := by
  simp [applyRequest, applyChanges, applyMutations]

/-! ## Clause 4 — DELETE / null / value on a top-level key -/

/-- DELETE removes EVERY top-level assignment with that key (all occurrences of a duplicated key) and
nothing else: the other nodes keep their order; META is untouched.  (Blocks / sections with that key are
not assignments and stay.) -/
theorem C18_delete (d : Doc) (k : Str) (v : JVal) (hk : classify k = .top) (hv : isDel v = true) :
    (applyChange d (k, v)).nodes = d.nodes.filter (fun n => !Node.isAssignKey k n)
      ∧ hasAssign k (applyChange d (k, v)).nodes = false
      ∧ lookupTop k (applyChange d (k, v)).nodes = none
      ∧ (applyChange d (k, v)).«meta» = d.«meta» := by
  have hn : (applyChange d (k, v)).nodes = delTop k d.nodes := by simp [applyChange, hk, hv]
  refine ⟨by rw [hn]; rfl, by rw [hn]; exact hasAssign_delTop_self k _, by rw [hn]; exact lookupTop_delTop_self k _, ?_⟩
  simp [applyChange, hk, hv]

/-- null: the key is present afterwards and its value is `null` (not Absent, not `""`, not `[]`). -/
theorem C18_null (d : Doc) (k : Str) (hk : classify k = .top) :
    lookupTop k (applyChange d (k, .null)).nodes = some .null := by
  simp [applyChange, hk, isDel, normalize, lookupTop_setTop_self]

/-- value: afterwards the (first) assignment with that key carries exactly the normalised value. -/
theorem C18_set_value (d : Doc) (k : Str) (v : JVal) (hk : classify k = .top) (hv : isDel v = false) :
    lookupTop k (applyChange d (k, v)).nodes = some (normalize v) := by
  simp [applyChange, hk, hv, lookupTop_setTop_self]

/-- value, key present: the FIRST occurrence is updated in place — same position, same leading and
trailing comments; later occurrences of a duplicated key are left as they are. -/
theorem C18_set_in_place (d : Doc) (k : Str) (v : JVal) (hk : classify k = .top) (hv : isDel v = false)
    (pre post : List Node) (lead : List Str) (old : Val) (trail : Option Str)
    (hd : d.nodes = pre ++ .assign lead k old trail :: post) (hpre : hasAssign k pre = false) :
    (applyChange d (k, v)).nodes = pre ++ .assign lead k (normalize v) trail :: post := by
  have : setFirst k (normalize v) d.nodes = some (pre ++ .assign lead k (normalize v) trail :: post) :=
    (setFirst_some_iff k _ _ _).mpr ⟨pre, lead, old, trail, post, hd, hpre, rfl⟩
  simp [applyChange, hk, hv, setTop, this]

/-- value, key not present: a new assignment without comments is appended at the end. -/
theorem C18_set_appended (d : Doc) (k : Str) (v : JVal) (hk : classify k = .top) (hv : isDel v = false)
    (hno : hasAssign k d.nodes = false) :
    (applyChange d (k, v)).nodes = d.nodes ++ [.assign [] k (normalize v) none] := by
  have : setFirst k (normalize v) d.nodes = none := (setFirst_none_iff k _ _).mpr hno
  simp [applyChange, hk, hv, setTop, this]

/-- the three stored states are pairwise different values of the AST, and none is Absent. -/
theorem C18_states_distinct :
    normalize .null = .null ∧ normalize (.str []) = .str [] ∧ normalize (.list []) = .list []
      ∧ Val.null ≠ Val.str [] ∧ Val.null ≠ Val.list [] ∧ Val.str [] ≠ Val.list []
      ∧ isDel .null = false ∧ isDel (.str []) = false ∧ isDel (.list []) = false := by
  simp [normalize, normalizeList, isDel]

/-! ## Clause 5 — META.X and META{…} merge -/

/-- `META.X` with a value (or null): field X gets exactly that value; an existing field keeps its
position, a new one goes last; every other field keeps value and position; the nodes are untouched. -/
theorem C18_meta_merge_field (d : Doc) (key f : Str) (v : JVal) (hk : classify key = .metaField f) (hv : isDel v = false) :
    let d' := applyChange d (key, v)
    d'.«meta» = dictSet d.«meta» f (normalize v)
      ∧ dictGet d'.«meta» f = some (normalize v)
      ∧ (∀ j, j ≠ f → dictGet d'.«meta» j = dictGet d.«meta» j)
      ∧ dictKeys d'.«meta» = (if f ∈ dictKeys d.«meta» then dictKeys d.«meta» else dictKeys d.«meta» ++ [f])
      ∧ d'.nodes = d.nodes := by
  have hm : (applyChange d (key, v)).«meta» = dictSet d.«meta» f (normalize v) := by simp [applyChange, hk, metaStep, hv]
  refine ⟨hm, by rw [hm]; exact dictGet_dictSet_self _ _ _, fun j hj => by rw [hm]; exact dictGet_dictSet_ne _ _ _ _ hj,
    by rw [hm]; exact dictKeys_dictSet _ _ _, by simp [applyChange, hk]⟩

/-- `META.X` with the DELETE sentinel: field X is gone, the others keep value and relative order. -/
theorem C18_meta_delete_field (d : Doc) (key f : Str) (v : JVal) (hk : classify key = .metaField f) (hv : isDel v = true) :
    let d' := applyChange d (key, v)
    dictGet d'.«meta» f = none
      ∧ (∀ j, j ≠ f → dictGet d'.«meta» j = dictGet d.«meta» j)
      ∧ dictKeys d'.«meta» = (dictKeys d.«meta»).filter (fun j => !(j == f))
      ∧ d'.nodes = d.nodes := by
  have hm : (applyChange d (key, v)).«meta» = dictDel d.«meta» f := by simp [applyChange, hk, metaStep, hv]
  refine ⟨by rw [hm]; exact dictGet_dictDel_self _ _, fun j hj => by rw [hm]; exact dictGet_dictDel_ne _ _ _ hj,
    by rw [hm]; exact dictKeys_dictDel _ _, by simp [applyChange, hk]⟩

/-- `META{…}` (not the sentinel): a MERGE — every field not mentioned in the request dict keeps its value,
and the unmentioned entries keep their relative order; mentioned fields end up as the spec fold says. -/
theorem C18_meta_merge (d : Doc) (key : Str) (pairs : List (Str × JVal)) (hk : classify key = .metaWhole)
    (hnd : isDel (.obj pairs) = false) :
    let d' := applyChange d (key, .obj pairs)
    let mentioned := fun f => pairs.any (fun p => p.1 == f)
    d'.«meta».filter (fun p => !mentioned p.1) = d.«meta».filter (fun p => !mentioned p.1)
      ∧ (∀ f, mentioned f = false → dictGet d'.«meta» f = dictGet d.«meta» f)
      ∧ (∀ f, dictGet d'.«meta» f = (pairs.map (fun p => MetaOp.step p.1 p.2)).foldl (specMeta f) (dictGet d.«meta» f))
      ∧ d'.nodes = d.nodes := by
  intro d' mentioned
  have hm : d'.«meta» = (pairs.map (fun p => MetaOp.step p.1 p.2)).foldl runMetaOp d.«meta» := by
    simp [d', applyChange, hk, hnd, foldl_metaStep_eq]
  have hspec : ∀ (ops : List MetaOp) (m : List (Str × Val)) (f : Str),
      dictGet (ops.foldl runMetaOp m) f = ops.foldl (specMeta f) (dictGet m f) := by
    intro ops
    induction ops with
    | nil => intros; rfl
    | cons op rest ih => intro m f; simp only [List.foldl_cons]; rw [ih, dictGet_runMetaOp]
  have hframe : ∀ (ps : List (Str × JVal)) (m : List (Str × Val)), (∀ p ∈ ps, mentioned p.1 = true) →
      ((ps.map (fun p => MetaOp.step p.1 p.2)).foldl runMetaOp m).filter (fun p => !mentioned p.1) = m.filter (fun p => !mentioned p.1) := by
    intro ps
    induction ps with
    | nil => intros; rfl
    | cons p rest ih =>
      intro m hps
      simp only [List.map_cons, List.foldl_cons]
      rw [ih _ (fun q hq => hps q (by simp [hq]))]
      exact runMetaOp_filter_unnamed mentioned m _ (fun f hf => by
        have : p.1 = f := by simpa [MetaOp.names] using hf
        rw [← this]; exact hps p (by simp))
  have hment : ∀ p ∈ pairs, mentioned p.1 = true := fun p hp => by
    simp only [mentioned, List.any_eq_true]; exact ⟨p, hp, by simp⟩
  refine ⟨by rw [hm]; exact hframe pairs d.«meta» hment, ?_, fun f => by rw [hm]; exact hspec _ _ f, by simp [d', applyChange, hk, hnd]⟩
  intro f hf
  rw [hm, hspec]
  have : ∀ (ps : List (Str × JVal)) (acc : Option Val), (∀ p ∈ ps, p.1 ≠ f) →
      (ps.map (fun p => MetaOp.step p.1 p.2)).foldl (specMeta f) acc = acc := by
    intro ps
    induction ps with
    | nil => intros; rfl
    | cons p rest ih =>
      intro acc hne
      simp only [List.map_cons, List.foldl_cons, specMeta, hne p (by simp), ↓reduceIte]
      exact ih acc (fun q hq => hne q (by simp [hq]))
  apply this
  intro p hp e
  have : mentioned f = true := by simp only [mentioned, List.any_eq_true]; exact ⟨p, hp, by simp [e]⟩
  rw [hf] at this; cases this

/-- `META` with the DELETE sentinel clears META and nothing else. -/
theorem C18_meta_delete_all (d : Doc) (key : Str) (pairs : List (Str × JVal)) (hk : classify key = .metaWhole)
    (hd : isDel (.obj pairs) = true) :
    (applyChange d (key, .obj pairs)).«meta» = [] ∧ (applyChange d (key, .obj pairs)).nodes = d.nodes := by
  simp [applyChange, hk, hd]

/-! ## Clause 6 — histories: applying r₁ … rₙ = folding the single-request spec (any n) -/

/-- the value of top-level key `k` after any history is the fold of `specTop k` over all entries of all
requests, in order: the last entry naming `k` decides (DELETE ↦ absent, null ↦ null, value ↦ that value),
and a key no entry names keeps its value. -/
theorem C18_sequence (d : Doc) (rs : List Request) (k : Str) :
    lookupTop k (applyRequests d rs).nodes = (rs.flatMap (·.changes)).foldl (specTop k) (lookupTop k d.nodes) := by
  rw [applyRequests_nodes]
  generalize rs.flatMap (·.changes) = cs
  generalize d.nodes = ns
  induction cs generalizing ns with
  | nil => rfl
  | cons c rest ih => simp only [List.foldl_cons]; rw [ih, lookupTop_applyTopEffect]

/-- the value of META field `f` after any history is the fold of `specMeta f` over all META operations
(`META.X`, entries of `META{…}`, whole-META DELETE, `mutations`) of all requests, in order. -/
theorem C18_sequence_meta (d : Doc) (rs : List Request) (f : Str) :
    dictGet (applyRequests d rs).«meta» f = (rs.flatMap metaOps).foldl (specMeta f) (dictGet d.«meta» f) := by
  rw [applyRequests_meta]
  generalize rs.flatMap metaOps = ops
  generalize d.«meta» = m
  induction ops generalizing m with
  | nil => rfl
  | cons op rest ih => simp only [List.foldl_cons]; rw [ih, dictGet_runMetaOp]

/-- a history is the history of its prefix followed by the history of its suffix (the tool is stateless). -/
theorem C18_sequence_concat (d : Doc) (rs₁ rs₂ : List Request) :
    applyRequests d (rs₁ ++ rs₂) = applyRequests (applyRequests d rs₁) rs₂ := by
  simp [applyRequests, List.foldl_append]

/-- a key that no request of the history names reads the same before and after. -/
theorem C18_sequence_unnamed (d : Doc) (rs : List Request) (k : Str)
    (h : ∀ c ∈ rs.flatMap (·.changes), ∀ k' r, topEffect c = some (k', r) → k' ≠ k) :
    lookupTop k (applyRequests d rs).nodes = lookupTop k d.nodes := by
  rw [C18_sequence]
  generalize rs.flatMap (·.changes) = cs at h
  generalize lookupTop k d.nodes = acc
  induction cs generalizing acc with
  | nil => rfl
  | cons c rest ih =>
    simp only [List.foldl_cons]
    have : specTop k acc c = acc := by
      unfold specTop
      cases he : topEffect c with
      | none => rfl
      | some e => obtain ⟨k', r⟩ := e; simp [h c (by simp) k' r he]
    rw [this]
    exact ih (fun c' hc' => h c' (by simp [hc'])) acc

/-! ## The CLI entry point (F28 / F81 / F82 fixed in repo commit 1dc8194) -/

/-- the DELETE sentinel as a request value. -/
def deleteSentinel : JVal := .obj [(Gen.deleteOpKey, .str Gen.deleteOpVal)]

/-- `octave write --changes` obeys every theorem above: on the AST it is `_apply_changes`.  In particular
a DELETE sentinel removes the key (it used to be written out as the value), a list is normalised (it used to
be stored raw) and `META{…}` merges (it used to replace). -/
theorem C18_cli_is_apply_changes (d : Doc) (changes : List (Str × JVal)) :
    cliApply d changes = applyRequest d { changes := changes } := by
  simp [cliApply, applyRequest, applyMutations]

theorem C18_cli_delete (d : Doc) (k : Str) (hk : classify k = .top) :
    lookupTop k (cliApply d [(k, deleteSentinel)]).nodes = none := by
  have hdel : isDel deleteSentinel = true := by decide
  simp [cliApply, applyChanges, applyChange, hk, hdel, lookupTop_delTop_self]

/-! ## Negative — open findings visible in the model -/

/-- F84 (kf_map_relayout) in the emitter model: a map written by a value request (`InlineMap`, one line)
and the same map as the parser returns it (a list of single-pair maps) have different layouts. -/
theorem C18_KF_map_relayout (E : Env) (k : Str) (ind : Nat) (hk : k.head? ≠ some '\n') :
    emitValue E (.map [(k, .null)]) ind ≠ emitValue E (.list [.map [(k, .null)]]) ind := by
  have h1 : emitValue E (.map [(k, .null)]) ind = ['['] ++ (k ++ [':', ':'] ++ E.scalar .null) ++ [']'] := by
    simp [emitValue, pairParts, forceQuote, joinWith]
  have h2 : ∃ rest, emitValue E (.list [.map [(k, .null)]]) ind = '[' :: '\n' :: rest := by
    simp [emitValue, needsMultiline, needsMultilineFrom, anyPresent, Val.isAbsent, multilineText, mlParts, pairParts,
      forceQuote, joinWith, withCommas]
  obtain ⟨rest, h2⟩ := h2
  rw [h1, h2]
  intro h
  cases k with
  | nil => simp at h
  | cons c cs =>
    simp only [List.cons_append, List.nil_append, List.cons.injEq, true_and] at h
    exact hk (by simp [h.1])

/-! ## Non-vacuity: concrete instances that meet the hypotheses -/

section Examples

def exEnv : Env where
  scalar := fun v => match v with
    | .null => "null".toList
    | .bool true => "true".toList
    | .bool false => "false".toList
    | .int i => (if i < 0 then '-' :: Nat.toDigits 10 i.natAbs else Nat.toDigits 10 i.natAbs)
    | .str [] => "\"\"".toList
    | .str s => s
    | .opaque t => t
    | _ => "?".toList
  quoted := fun s => '"' :: s ++ ['"']
  isAnnotation := fun _ => false
  alwaysQuote := fun k => k == "PATTERN".toList

def exDoc : Doc :=
  { name := "DOC".toList, «meta» := [("TYPE".toList, .str "SPEC".toList), ("VERSION".toList, .int 1)],
    nodes := [.assign ["first".toList] "A".toList (.int 1) (some "tr".toList), .assign [] "B".toList (.str "x".toList) none,
              .block [] "BLK".toList none [.assign [] "A".toList (.int 7) none], .assign [] "A".toList (.int 2) none] }

-- classification of keys (hypotheses `classify k = …` are satisfiable, and the near-misses go the right way)
example : classify "A".toList = .top ∧ classify "META.X".toList = .metaField "X".toList ∧ classify "META".toList = .metaWhole
    ∧ classify "METAX".toList = .top ∧ classify "XMETA.Y".toList = .top ∧ classify "meta.x".toList = .top := by decide
example : isDel deleteSentinel = true ∧ isDel (.obj [("$op".toList, .str "delete".toList)]) = false
    ∧ isDel (.obj [("op".toList, .str "DELETE".toList)]) = false ∧ isDel (.list [deleteSentinel]) = false
    ∧ isDel (.obj [("x".toList, .int 1), ("$op".toList, .str "DELETE".toList)]) = true := by decide

-- C18_absent_silent: a document with Absent at six kinds of site
def exAbsentDoc : Doc :=
  { name := "D".toList, «meta» := [("X".toList, .absent), ("Y".toList, .dict [("a".toList, .absent), ("b".toList, .int 1)])],
    nodes := [.assign [] "A".toList .absent none,
              .block [] "B".toList none [.assign ["c".toList] "C".toList .absent none, .assign [] "D".toList (.list [.absent, .int 1, .map [("k".toList, .absent)]]) none],
              .sect [] "1".toList "S".toList none [.assign [] "E".toList .absent none]] }
example : String.ofList (emitText exEnv exAbsentDoc) = "===D===\nMETA:\n  Y:\n    b::1\nB:\n  D::[1]\n§1::S\n===END===\n" := by decide
-- tri-state hypotheses hold for the example renderer
example : exEnv.scalar .null ≠ exEnv.scalar (.str []) ∧ exEnv.scalar .null ≠ ['[', ']'] ∧ exEnv.scalar (.str []) ≠ ['[', ']']
    ∧ (exEnv.scalar (.str [])).head? = some '"' := by decide
-- frame / delete / set / null on a document with a duplicated key and a block of the same name
example : (applyChange exDoc ("A".toList, deleteSentinel)).nodes
    = [.assign [] "B".toList (.str "x".toList) none, .block [] "BLK".toList none [.assign [] "A".toList (.int 7) none]] := rfl
example : (applyChange exDoc ("A".toList, .null)).nodes
    = [.assign ["first".toList] "A".toList .null (some "tr".toList), .assign [] "B".toList (.str "x".toList) none,
       .block [] "BLK".toList none [.assign [] "A".toList (.int 7) none], .assign [] "A".toList (.int 2) none] := rfl
example : (applyChange exDoc ("NEW".toList, .list [.str [], .null])).nodes
    = exDoc.nodes ++ [.assign [] "NEW".toList (.list [.str [], .null]) none] := rfl
-- META merge keeps the unmentioned field and its position; META{…} with a nested DELETE
example : (applyChange exDoc ("META".toList, .obj [("VERSION".toList, deleteSentinel), ("NEW".toList, .null)])).«meta»
    = [("TYPE".toList, .str "SPEC".toList), ("NEW".toList, .null)] := rfl
example : (applyChange exDoc ("META.TYPE".toList, .int 5)).«meta» = [("TYPE".toList, .int 5), ("VERSION".toList, .int 1)] := rfl
-- a history of three requests and the spec fold
example : lookupTop "A".toList (applyRequests exDoc
    [{ changes := [("A".toList, .int 5)] }, { changes := [("A".toList, deleteSentinel)] }, { changes := [("A".toList, .str [])] }]).nodes
    = some (.str []) := rfl
-- the CLI removes the key on DELETE and merges META (regression vectors of F28 / F82)
example : hasAssign "B".toList (cliApply exDoc [("B".toList, deleteSentinel)]).nodes = false := by decide
example : (cliApply exDoc [("META".toList, .obj [("VERSION".toList, .int 2)])]).«meta»
    = [("TYPE".toList, .str "SPEC".toList), ("VERSION".toList, .int 2)] := rfl
-- C18_absent_never_rendered: two different renderers that agree off Absent
def exEnv' : Env := { exEnv with scalar := fun v => match v with | .absent => "ValueError".toList | v => exEnv.scalar v }
example : EnvAgree exEnv exEnv' ∧ exEnv.scalar .absent ≠ exEnv'.scalar .absent :=
  ⟨⟨fun v hv => by cases v <;> simp_all [exEnv', Val.isAbsent], rfl, rfl, rfl⟩, by decide⟩
-- frame: naming A leaves exactly B and the block BLK (whose child is also called A) in the unnamed part
example : (exDoc.nodes.filter (unnamedNode (namesTop [("A".toList, JVal.null)]))).length = 2 := by decide
-- C18_sequence_unnamed: a history naming only B does not name A
example : ∀ c ∈ ([{ changes := [("B".toList, JVal.null)] }] : List Request).flatMap (·.changes),
    ∀ k' r, topEffect c = some (k', r) → k' ≠ "A".toList := by
  intro c hc k' r he
  simp at hc
  subst hc
  have : topEffect (['B'], JVal.null) = some (['B'], some .null) := rfl
  rw [this] at he
  cases he
  decide
-- C18_set_in_place / C18_set_appended hypotheses on the example document
example : exDoc.nodes = [] ++ .assign ["first".toList] "A".toList (.int 1) (some "tr".toList) :: exDoc.nodes.tail
    ∧ hasAssign "A".toList [] = false ∧ hasAssign "NEW".toList exDoc.nodes = false := ⟨rfl, rfl, rfl⟩
-- C18_meta_merge / C18_meta_delete_all hypotheses
example : classify "META".toList = .metaWhole ∧ isDel (.obj [("VERSION".toList, deleteSentinel), ("NEW".toList, .null)]) = false
    ∧ isDel (.obj [("$op".toList, .str "DELETE".toList)]) = true := by decide
-- C18_KF_map_relayout hypothesis
example : "k".toList.head? ≠ some '\n' := by decide
-- the former F85 witness: a META whose only value is Absent now emits exactly the text without META
example : emitText exEnv { name := "D".toList, «meta» := [("X".toList, .absent)] } = emitText exEnv { name := "D".toList }
    ∧ String.ofList (emitText exEnv { name := "D".toList, «meta» := [("X".toList, .absent)] }) = "===D===\n===END===\n" := by decide

end Examples

end Octave.C18
