/-
C18 — Absent, null and value stay distinct; changes touch only named keys (I2).
-/
import Octave.Model.Changes
import Octave.Model.Emit
import Octave.Spec.Prune
namespace Octave.C18
open Octave

/-- every emission site of emitter.py is dominated by an `is_absent` filter (or delegates to callers that are). -/
theorem gen_sites_all_guarded : Gen.absentSites.all (fun s => s.guard != .unguarded) = true := by decide

end Octave.C18
