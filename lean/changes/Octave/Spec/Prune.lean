/-
Independent description of "the document with every Absent site removed" (C18, first clause):
Absent-valued assignments (top level, block children, section children at any depth), Absent META
entries, Absent entries of a nested META dict, Absent list items and Absent inline-map values (at any
depth inside values) are deleted; nothing else changes.

A raw Python `dict` is part of the AST only as a direct value of META (the parser's one nested level).
Anywhere else it is a foreign object that `emit_value` prints with `str()`; it is left alone here.
-/
import Octave.Model.Doc
namespace Octave

mutual
def pruneVal : Val → Val
  | .list items => .list (pruneItems items)
  | .map pairs => .map (prunePairs pairs)
  | v => v
def pruneItems : List Val → List Val
  | [] => []
  | .absent :: rest => pruneItems rest
  | v :: rest => pruneVal v :: pruneItems rest
def prunePairs : List (Str × Val) → List (Str × Val)
  | [] => []
  | (_, .absent) :: rest => prunePairs rest
  | (k, v) :: rest => (k, pruneVal v) :: prunePairs rest
end

mutual
def pruneNode : Node → Node
  | .assign lead key v trail => .assign lead key (pruneVal v) trail
  | .block lead key target children => .block lead key target (pruneNodes children)
  | .sect lead id key ann children => .sect lead id key ann (pruneNodes children)
  | .comment t => .comment t
def pruneNodes : List Node → List Node
  | [] => []
  | .assign _ _ .absent _ :: rest => pruneNodes rest
  | n :: rest => pruneNode n :: pruneNodes rest
end

/-- META: Absent entries go; a nested dict loses its Absent entries; other values are pruned inside. -/
def pruneMeta : List (Str × Val) → List (Str × Val)
  | [] => []
  | (_, .absent) :: rest => pruneMeta rest
  | (k, .dict pairs) :: rest => (k, .dict (prunePairs pairs)) :: pruneMeta rest
  | (k, v) :: rest => (k, pruneVal v) :: pruneMeta rest

def pruneDoc (d : Doc) : Doc := { d with «meta» := pruneMeta d.«meta», nodes := pruneNodes d.nodes }

end Octave
