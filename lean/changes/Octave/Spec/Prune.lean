/-
Independent description of "the document with every Absent site removed" (C18, first clause):
Absent-valued assignments (top level, block children, section children at any depth), Absent META
entries, Absent entries of a nested META dict, Absent list items and Absent inline-map values (at any
depth inside values) are deleted; nothing else changes.
-/
import Octave.Model.Doc
namespace Octave

mutual
def pruneVal : Val → Val
  | .list items => .list (pruneItems items)
  | .map pairs => .map (prunePairs pairs)
  | .dict pairs => .dict (prunePairs pairs)
  | v => v
def pruneItems : List Val → List Val
  | [] => []
  | .absent :: rest => pruneItems rest
  | v :: rest => pruneVal v :: pruneItems rest
def prunePairs : List (Str × Val) → List (Str × Val)
  | [] => []
  | (_, .absent) :: rest => prunePairs rest
  | (k, v) :: rest => (k, pruneVal v) :: prunePairs rest
end

mutual
def pruneNode : Node → Node
  | .assign lead key v trail => .assign lead key (pruneVal v) trail
  | .block lead key target children => .block lead key target (pruneNodes children)
  | .sect lead id key ann children => .sect lead id key ann (pruneNodes children)
  | .comment t => .comment t
def pruneNodes : List Node → List Node
  | [] => []
  | .assign _ _ .absent _ :: rest => pruneNodes rest
  | n :: rest => pruneNode n :: pruneNodes rest
end

def pruneDoc (d : Doc) : Doc := { d with «meta» := prunePairs d.«meta», nodes := pruneNodes d.nodes }

end Octave
