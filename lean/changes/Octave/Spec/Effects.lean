/-
The single-request specification of changes mode, written on the *observable* state only:
what a request does to "the value of top-level key k" and to "the value of META field f".
A history of calls is the fold of these effects (theorems `C18_sequence*`).
-/
import Octave.Model.Changes
namespace Octave

/-- what one entry of `changes` does to the top-level key space:
`some (key, none)` = delete that key, `some (key, some v)` = set it, `none` = no top-level effect. -/
def topEffect (c : Str × JVal) : Option (Str × Option Val) :=
  match classify c.1 with
  | .metaField _ => none
  | .metaWhole => if isObj c.2 then none else some (c.1, some (normalize c.2))
  | .top => if isDel c.2 then some (c.1, none) else some (c.1, some (normalize c.2))

/-- the value of top-level key `k` after one entry, given its value before. -/
def specTop (k : Str) (before : Option Val) (c : Str × JVal) : Option Val :=
  match topEffect c with
  | some (k', r) => if k' = k then r else before
  | none => before

/-- an operation on META: clear everything, or the tri-state step on one field. -/
inductive MetaOp where
  | clear
  | step (field : Str) (v : JVal)
  deriving Repr

/-- the META operations one entry of `changes` stands for, in order. -/
def metaOpsOfChange (c : Str × JVal) : List MetaOp :=
  match classify c.1 with
  | .metaField f => [.step f c.2]
  | .metaWhole =>
    match c.2 with
    | .obj pairs => if isDel (.obj pairs) then [.clear] else pairs.map (fun p => .step p.1 p.2)
    | _ => []
  | .top => []

/-- all META operations of one call: those of `changes` in order, then the `mutations`. -/
def metaOps (r : Request) : List MetaOp :=
  r.changes.flatMap metaOpsOfChange ++ r.mutations.map (fun p => .step p.1 p.2)

/-- the value of META field `f` after one operation, given its value before. -/
def specMeta (f : Str) (before : Option Val) : MetaOp → Option Val
  | .clear => none
  | .step f' v => if f' = f then (if isDel v then none else some (normalize v)) else before

/-- a request names top-level key `k`. -/
def namesTop (cs : List (Str × JVal)) (k : Str) : Bool :=
  cs.any (fun c => match topEffect c with | some (k', _) => k' == k | none => false)

/-- a META operation names field `f` (`clear` names every field). -/
def MetaOp.names : MetaOp → Str → Bool
  | .clear, _ => true
  | .step f' _, f => f' == f

end Octave
