/-
JSON-lines driver for the `changes` engine (C18): one request per line on stdin, one reply per line.

  {"op":"apply","doc":D,"requests":[{"changes":[[k,J]…],"mutations":[[k,J]…]}…]}  ->  {"docs":[D…]}   (doc after each request)
  {"op":"cli","doc":D,"changes":[[k,J]…]}                                          ->  {"doc":D}
  {"op":"emit","doc":D,"strs":[[s,rendered,quoted,isAnnotation]…],"always":[key…]} ->  {"text":"…"}
  {"op":"prune","doc":D}                                                           ->  {"doc":D}        (every Absent site removed)

value V : null | true/false | {"i":"<decimal>"} | {"s":"…"} | {"o":"<rendering>"} | {"z":[fence,info,content]}
          | {"l":[V…]} | {"m":[[k,V]…]} (InlineMap) | {"d":[[k,V]…]} (dict in META) | {"a":1} (Absent) | {"py":J}
request value J : null | true/false | {"i":…} | {"s":…} | {"o":…} | {"l":[J…]} | {"m":[[k,J]…]}
node N : {"t":"a","lead":[…],"key":k,"v":V,"trail":null|str} | {"t":"b","lead":[…],"key":k,"target":null|str,"ch":[N…]}
         | {"t":"s","lead":[…],"id":…,"key":k,"ann":null|str,"ch":[N…]} | {"t":"c","text":…}
doc D : {"front":null|str,"grammar":null|str,"name":…,"meta":[[k,V]…],"sep":bool,"nodes":[N…],"trailing":[…]}
-/
import Lean.Data.Json
import Octave.Model.Changes
import Octave.Model.Emit
import Octave.Spec.Prune
open Lean Octave

def strOf (j : Json) : Except String Str := do
  let s ← j.getStr?
  pure s.toList

def optStr (j : Json) (k : String) : Except String (Option Str) :=
  match j.getObjVal? k with
  | .ok .null => pure none
  | .ok v => do pure (some (← strOf v))
  | .error _ => pure none

def strList (j : Json) (k : String) : Except String (List Str) := do
  match j.getObjVal? k with
  | .ok (.arr xs) => xs.toList.mapM strOf
  | _ => pure []

def pairOf {α} (f : Json → Except String α) (j : Json) : Except String (Str × α) := do
  match j with
  | .arr #[k, v] => pure ((← strOf k), (← f v))
  | _ => throw "pair expected"

partial def jvalOfJson : Json → Except String JVal
  | .null => pure .null
  | .bool b => pure (.bool b)
  | j => do
    if let .ok s := j.getObjValAs? String "s" then return .str s.toList
    if let .ok i := j.getObjValAs? String "i" then
      match i.toInt? with
      | some n => return .int n
      | none => throw "bad int"
    if let .ok s := j.getObjValAs? String "o" then return .opaque s.toList
    if let .ok (xs : Array Json) := j.getObjValAs? (Array Json) "l" then
      return .list (← xs.toList.mapM jvalOfJson)
    if let .ok (xs : Array Json) := j.getObjValAs? (Array Json) "m" then
      return .obj (← xs.toList.mapM (pairOf jvalOfJson))
    throw "unsupported request value"

partial def valOfJson : Json → Except String Val
  | .null => pure .null
  | .bool b => pure (.bool b)
  | j => do
    if let .ok s := j.getObjValAs? String "s" then return .str s.toList
    if let .ok i := j.getObjValAs? String "i" then
      match i.toInt? with
      | some n => return .int n
      | none => throw "bad int"
    if let .ok s := j.getObjValAs? String "o" then return .opaque s.toList
    if let .ok (xs : Array Json) := j.getObjValAs? (Array Json) "z" then
      match xs.toList with
      | [a, b, c] => return .zone (← strOf a) (← strOf b) (← strOf c)
      | _ => throw "bad zone"
    if let .ok (xs : Array Json) := j.getObjValAs? (Array Json) "l" then
      return .list (← xs.toList.mapM valOfJson)
    if let .ok (xs : Array Json) := j.getObjValAs? (Array Json) "m" then
      return .map (← xs.toList.mapM (pairOf valOfJson))
    if let .ok (xs : Array Json) := j.getObjValAs? (Array Json) "d" then
      return .dict (← xs.toList.mapM (pairOf valOfJson))
    if let .ok _ := j.getObjVal? "a" then return .absent
    if let .ok p := j.getObjVal? "py" then return .py (← jvalOfJson p)
    throw "unsupported value"

partial def nodeOfJson (j : Json) : Except String Node := do
  let t ← j.getObjValAs? String "t"
  match t with
  | "a" => pure (.assign (← strList j "lead") (← strOf (← j.getObjVal? "key")) (← valOfJson (← j.getObjVal? "v")) (← optStr j "trail"))
  | "b" =>
    let ch ← (← j.getObjValAs? (Array Json) "ch").toList.mapM nodeOfJson
    pure (.block (← strList j "lead") (← strOf (← j.getObjVal? "key")) (← optStr j "target") ch)
  | "s" =>
    let ch ← (← j.getObjValAs? (Array Json) "ch").toList.mapM nodeOfJson
    pure (.sect (← strList j "lead") (← strOf (← j.getObjVal? "id")) (← strOf (← j.getObjVal? "key")) (← optStr j "ann") ch)
  | "c" => pure (.comment (← strOf (← j.getObjVal? "text")))
  | _ => throw "unsupported node"

def docOfJson (j : Json) : Except String Doc := do
  let «meta» ← (← j.getObjValAs? (Array Json) "meta").toList.mapM (pairOf valOfJson)
  let nodes ← (← j.getObjValAs? (Array Json) "nodes").toList.mapM nodeOfJson
  pure { front := ← optStr j "front", grammar := ← optStr j "grammar", name := ← strOf (← j.getObjVal? "name"),
         «meta» := «meta», sep := (← j.getObjValAs? Bool "sep"), nodes := nodes, trailing := ← strList j "trailing" }

def js (s : Str) : Json := Json.str (String.ofList s)
def jopt : Option Str → Json
  | some s => js s
  | none => .null

partial def jvalToJson : JVal → Json
  | .null => .null
  | .bool b => .bool b
  | .int i => Json.mkObj [("i", toString i)]
  | .str s => Json.mkObj [("s", js s)]
  | .opaque s => Json.mkObj [("o", js s)]
  | .list xs => Json.mkObj [("l", Json.arr (xs.map jvalToJson).toArray)]
  | .obj ps => Json.mkObj [("m", Json.arr (ps.map (fun p => Json.arr #[js p.1, jvalToJson p.2])).toArray)]

partial def valToJson : Val → Json
  | .absent => Json.mkObj [("a", (1 : Nat))]
  | .null => .null
  | .bool b => .bool b
  | .int i => Json.mkObj [("i", toString i)]
  | .str s => Json.mkObj [("s", js s)]
  | .opaque s => Json.mkObj [("o", js s)]
  | .zone a b c => Json.mkObj [("z", Json.arr #[js a, js b, js c])]
  | .list xs => Json.mkObj [("l", Json.arr (xs.map valToJson).toArray)]
  | .map ps => Json.mkObj [("m", Json.arr (ps.map (fun p => Json.arr #[js p.1, valToJson p.2])).toArray)]
  | .dict ps => Json.mkObj [("d", Json.arr (ps.map (fun p => Json.arr #[js p.1, valToJson p.2])).toArray)]
  | .py j => Json.mkObj [("py", jvalToJson j)]

partial def nodeToJson : Node → Json
  | .assign lead key v trail => Json.mkObj [("t", "a"), ("lead", Json.arr (lead.map js).toArray), ("key", js key), ("v", valToJson v), ("trail", jopt trail)]
  | .block lead key target ch => Json.mkObj [("t", "b"), ("lead", Json.arr (lead.map js).toArray), ("key", js key), ("target", jopt target), ("ch", Json.arr (ch.map nodeToJson).toArray)]
  | .sect lead id key ann ch => Json.mkObj [("t", "s"), ("lead", Json.arr (lead.map js).toArray), ("id", js id), ("key", js key), ("ann", jopt ann), ("ch", Json.arr (ch.map nodeToJson).toArray)]
  | .comment text => Json.mkObj [("t", "c"), ("text", js text)]

def docToJson (d : Doc) : Json :=
  Json.mkObj [("front", jopt d.front), ("grammar", jopt d.grammar), ("name", js d.name),
    ("meta", Json.arr (d.«meta».map (fun p => Json.arr #[js p.1, valToJson p.2])).toArray),
    ("sep", d.sep), ("nodes", Json.arr (d.nodes.map nodeToJson).toArray), ("trailing", Json.arr (d.trailing.map js).toArray)]

def changesOfJson (j : Json) (k : String) : Except String (List (Str × JVal)) :=
  match j.getObjVal? k with
  | .ok (.arr xs) => xs.toList.mapM (pairOf jvalOfJson)
  | _ => pure []

def requestOfJson (j : Json) : Except String Request := do
  pure { changes := ← changesOfJson j "changes", mutations := ← changesOfJson j "mutations" }

/-- the concrete environment of one `emit` request: string renderings come from the real `emit_value`. -/
def envOf (strs : List (Str × Str × Str × Bool)) (always : List Str) : Env where
  scalar := fun v => match v with
    | .null => "null".toList
    | .bool true => "true".toList
    | .bool false => "false".toList
    | .int i => (toString i).toList
    | .str s => match strs.find? (fun e => e.1 == s) with
      | some e => e.2.1
      | none => "<?str>".toList
    | .opaque t => t
    | .zone _ _ _ => "<?zone-in-value-position>".toList
    | .absent => "<ValueError: Absent passed to emit_value>".toList
    | _ => "<?raw>".toList
  quoted := fun s => match strs.find? (fun e => e.1 == s) with
    | some e => e.2.2.1
    | none => "<?quoted>".toList
  isAnnotation := fun s => match strs.find? (fun e => e.1 == s) with
    | some e => e.2.2.2
    | none => false
  alwaysQuote := fun k => always.contains k

def strEntry (j : Json) : Except String (Str × Str × Str × Bool) := do
  match j with
  | .arr #[a, b, c, d] => pure ((← strOf a), (← strOf b), (← strOf c), (← d.getBool?))
  | _ => throw "bad strs entry"

def scanl {α β} (f : β → α → β) (b : β) : List α → List β
  | [] => []
  | x :: xs => let b' := f b x; b' :: scanl f b' xs

def handle (j : Json) : Json :=
  let r : Except String Json := do
    let op ← j.getObjValAs? String "op"
    match op with
    | "apply" =>
      let d ← docOfJson (← j.getObjVal? "doc")
      let rs ← (← j.getObjValAs? (Array Json) "requests").toList.mapM requestOfJson
      pure (Json.mkObj [("docs", Json.arr ((scanl applyRequest d rs).map docToJson).toArray)])
    | "cli" =>
      let d ← docOfJson (← j.getObjVal? "doc")
      let ch ← changesOfJson j "changes"
      pure (Json.mkObj [("doc", docToJson (cliApply d ch))])
    | "emit" =>
      let d ← docOfJson (← j.getObjVal? "doc")
      let strs ← (← j.getObjValAs? (Array Json) "strs").toList.mapM strEntry
      let always ← strList j "always"
      pure (Json.mkObj [("text", js (emitText (envOf strs always) d))])
    | "prune" =>
      let d ← docOfJson (← j.getObjVal? "doc")
      pure (Json.mkObj [("doc", docToJson (pruneDoc d))])
    | _ => throw "op"
  match r with
  | .ok out => out
  | .error e => Json.mkObj [("unsupported", e)]

partial def loop (h : IO.FS.Stream) (out : IO.FS.Stream) : IO Unit := do
  let line ← h.getLine
  if line.isEmpty then return ()
  let reply := match Json.parse line with
    | .ok j => handle j
    | .error e => Json.mkObj [("unsupported", s!"json: {e}")]
  out.putStrLn reply.compress
  loop h out

def main : IO Unit := do
  let out ← IO.getStdout
  loop (← IO.getStdin) out
  out.flush
